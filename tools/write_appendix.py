#!/usr/bin/env python3
"""Rewrites 'Appendix B' of DESIGN.md from seeded/*/meta.json."""
import subprocess, re
table = subprocess.run(["python3", "/verif/tools/appendix.py"], capture_output=True, text=True).stdout
p = "/verif/DESIGN.md"
s = open(p).read()
head = "## Appendix B. Seeded property-breaking changes and which checks catch them\n"
i = s.find(head)
if i >= 0:
    s = s[:i]
import json, glob, re
rows = []
for d in sorted(glob.glob("/verif/seeded/*/")):
    m = json.load(open(d + "meta.json"))
    w = re.search(r"-w(\d+)m", m["id"])
    wave = "1" if "-m" in m["id"] else (w.group(1) if w else "own")
    r1 = m.get("round1", {}).get("detected_by")
    final = m.get("detected_by", [])
    first = r1 if r1 is not None else m.get("first_run_detected_by", final)
    stale = "has no faithful counterpart" in m.get("note", "")
    rows.append((wave, m["breaks_property"], first, final, stale))
stats = "| wave | changes | caught at first evaluation (any check / the property's own check) | caught by the final framework (any / own) |\n|---|---|---|---|\n"
for w in ["1", "2", "3", "4", "5", "6", "own"]:
    rs = [r for r in rows if r[0] == w]
    if not rs:
        continue
    stats += "| %s | %d | %d / %d | %d / %d |\n" % (w, len(rs), sum(1 for r in rs if r[2]), sum(1 for r in rs if r[1] in r[2]),
                                                  sum(1 for r in rs if r[3]), sum(1 for r in rs if r[1] in r[3]))
n_all = len(rows)
text = head + '''
%d changes to ts-rs were produced by fresh sub-agents that saw **only the text of one property and
a scratch worktree** (nothing from /verif; from wave 5 on also one line per earlier change for that
property, with the instruction to find a different mechanism). Each was asked for two realistic
changes (wave 6: one) that break the property, still compile and pass the repository's 471 tests, and need something
specific to manifest. I kept a change only after confirming all of that myself (`tools/trial.py
verify`: apply in a scratch worktree, run the suite, run the author's demonstration without and with
the change). They live in `seeded/<id>/` (`patch.diff`, `demo.rs`, `notes.md`, `meta.json` with what
was run and every check's verdict; `patch_original.diff` where a later repair of ts-rs made a hand
port of the patch necessary). Trials run the registered quick commands inside a private mount
namespace (`tools/partrial.py`: a copy of /repo with the patch applied is bind-mounted over /repo, a
copy of /verif over /verif), so the real /repo is never modified. One further change (`C16-own1`) is
mine, made to exercise the crate-rename corpus.

Waves, so that detection is measured on changes the checks were **not** tuned on ("first evaluation" =
the framework as it stood when the wave was produced):

''' % n_all + stats + '''
* **wave 1** (all 17 properties, against the first complete framework): every miss named a hole in an
  alphabet (same type used twice in one container, several flattened fields, attributes combined on
  one field, `concrete` split over attributes, const defaults, dot-directories, inline form of
  library types, wrappers around flattened types, representation-key triples, doc text naming a
  sibling type …); the corpora were extended *generically* (families, not the single failing input).
* **wave 2** (the 10 weakest properties, after that strengthening): misses were type-override fields
  with non-identifier keys, `concrete` + default on one parameter, container bound to the parameter of
  an inlined generic / aliases, wrapped map keys, const before type parameters, variant-level `type`
  override - again closed by extending families.
* **wave 3** (the history/schedule/attribute properties, on the repaired tree with the rewritten
  merge): one change was caught only after the scheduler learnt to turn "the same schedule gives
  another result the second time" into a finding instead of a replay divergence; one miss (container
  `type`/`as` + serde `rename`; C10 slots added).
* **wave 4** (all 17 properties, asked for less-travelled mechanisms; held-out measurement of the
  framework after three rounds of strengthening): 28 of 34 caught at first evaluation, 19 by the
  property's own check. The 6 misses: a file shared under two spellings that only `..` resolution
  makes equal (C03), `absolute()` resolving through the file system when the path exists - needs a
  symbolic link in the base directory (C06, C08), `concrete` split over attributes on an *enum*
  (C07), `as` + `inline` on the newtype payload of an internally tagged enum (C14), a write fault on
  a shared file *after* another type was exported into it (C17). Closed by: a second spelling of
  `s.ts` among the placements and in the universe, a symlinked base / export directory, enum twins of
  every `concrete` case, `as = U` × inline × representation, the obstacle "existing shared target
  replaced by a directory". The 9 changes caught only by a neighbouring check led to further
  extensions (serde entries behind an unsupported nested-form entry and a type override that says the
  truth in the `main` corpus; instantiations of a shared-file generic with foreign arguments in C05/C06;
  generics with a hidden parameter in the graph corpus; entry-point mixes in C13; the naming branches of
  `format_field` in C09).

* **wave 5** (all 17 properties; the sub-agents were additionally given one line per earlier change for
  their property and told to find *different* mechanisms - a deliberately adversarial held-out
  measurement): 23 of 34 caught at first evaluation, 12 by the property's own check; 10 missed and one
  (C13-w5m1) ended in a machinery error instead of a verdict. What the misses needed: a single-variant
  enum with a union payload flattened next to other fields (C02); a quoted name ending in `\` inside a
  lone flattened `( .. ) & ( .. )` (C04); a shared file whose extension is not `.ts` (C05 - its clause is
  C03's "never imports from itself"); a type parameter no emitted field mentions (C07); directories that
  differ in case only, a file named `x.d.ts` (C08); a struct `tag` that needs escaping in the `serde`
  spelling only (C10); `Weak<T>` under `optional_fields` (C12); a second, unannounced acquisition of the
  registry lock (C13: hook H4, see 0.2a); doc text with `format!` placeholders on a type-overridden field,
  an unpaired quote inside twice-flattened enums (C15). All closed by extending the respective families
  (and by H4 / treating ill-formed references as violations); the sub-agents' side observations led to
  findings F28, F29.

* **wave 6** (all 17 properties, one change per agent, same adversarial briefing as wave 5; measured on the
  framework of the session before - commits acbd9b5 / d02a711): 6 changes were missed at first evaluation and one
  (C11-w6m1) ended in a machinery error in two neighbouring checks while its own check caught it. A new
  mechanism class appeared twice: **state that the change adds and that survives between calls** - a
  process-wide "already exported" memo keyed without the directory (C11-w6m1, C03-w6m1 - written
  independently), and a `static OnceLock` inside the *generated* `inline()` that all instantiations of a
  generic type share (C07-w6m1). What the misses needed and how they were closed (families, not the failing
  input): a nullable inside a container inside a nullable (C12; the lib corpus now has every word of length 3
  over 8 constructors with values built compositionally, 490 types at quick); a generic type whose only
  field is flattened, asked for a concrete instantiation and for its declaration in one process (C07;
  lone-/two-flattened-parameter families, and a **call-order twin of every generic case**: a concrete
  instantiation is asked for `inline()`, `decl_concrete()`, `name()` before the generic declaration is
  first asked for, plus "a declaration asked again after the body is the same text" in every E2 case); a
  struct made only of flattened members of the shape enum-struct-enum, flattened alone (C14; every word
  without repetition of length <= 3 over struct / generic / two enum representations now goes through
  every presentation); a documented field next to a flattened one with ` } & { ` in the text (C15; three
  new documentation positions - this change re-introduced the defect F22 by another route); `#[ts(skip)]`
  together with a serde entry that is invalid at that position (C10; `ts(skip)` x every serde entry of every
  slot x 12 skippable positions x both orders); a transparent wrapper around `Option` under
  `optional_fields` (C01; caught by C12's `optional_fields` rule only - family added to the main corpus);
  `Option<D::Assoc>` of a concretised parameter under non-nullable `optional` (C16; family "associated
  types of a concretised parameter" compared with the item that writes the type out). The scheduler's
  reproducibility pre-check now distinguishes "first use takes another path but the result is the
  reference tree" (settles - explored) from a wrong tree on the default schedule (violation) - before,
  both ended in a machinery error. Two changes are caught only by a neighbour because of what they violate
  as they manifest: C06-w6m1 releases the registry lock (an interleaving matter: C05/C13; C06 quantifies
  over sequential histories), C05-w6m1 registers before writing (shows only after a failed write: C17).
  Independently of the wave, the schedule explorer's program alphabet became systematic (all 300 pairs of
  one-call threads over the universe x both entry points, next to the hand-picked programs).

With the final framework every re-runnable change is caught (`seeded/final_run2.log` for waves 1-4, `seeded/final_run3.log` for wave 5, the `checks_run` of each `seeded/*-w6m1/meta.json` for wave 6, `seeded/final_run4.log` = the 35 export-related changes of waves 1-4 once more after hook H4 and the last extensions: own check +
every check that ever reported the change, re-run on the final tree) and no check ended in a machinery
error. Changes caught only by neighbouring checks are those where the change, as it manifests, does not
violate the target property's own clause (e.g. C13-m1 after its port is deterministic but leaves import
names unsorted - a C05 matter; C04-w4m1 registers a type before the write succeeded - C17's clause;
C13-w3m2 / C13-w4m2 depend on the entry point used - C06's clause until C13 learnt entry-point mixes).
Three wave-1 changes modify the textual merge that fix 0e0de93 replaced and cannot be applied to later
trees; their verdicts are from the tree they were written for (C15-m2 was *not* caught there: its effect
was inside the population the then-open finding F03 absorbed - the reason F02-F04 were repaired rather
than kept as known findings). No check raised an alarm for a property the change does not break that I
could not trace to a real consequence of the change (the multi-property rows are genuine: e.g. a lost
dependency breaks imports (C03), the file set (C11) and the parse of the importing module).

Side findings reported by the sub-agents on the unchanged tree (all reproduced by the machinery after
the alphabets were extended, then repaired): F20 (unbalanced parentheses), F21 (doc text starting with
`/`), F22 (object merge rewriting doc text), F26 (parentheses inside documentation counted by the
unwrapping scan), F27 (`.js` stripped from import paths without `import-esm`), F28 (`optional_fields` with a
type-parameter field), F29 (`bound` dropping the declared where clause).

Bold = the property's own check.

''' + table
open(p, "w").write(s.rstrip("\n") + "\n\n\n" + text)
