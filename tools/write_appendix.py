#!/usr/bin/env python3
"""Rewrites 'Appendix B' of DESIGN.md from seeded/*/meta.json."""
import subprocess, re
table = subprocess.run(["python3", "/verif/tools/appendix.py"], capture_output=True, text=True).stdout
p = "/verif/DESIGN.md"
s = open(p).read()
head = "## Appendix B. Seeded property-breaking changes and which checks catch them\n"
i = s.find(head)
if i >= 0:
    s = s[:i]
text = head + '''
68 changes to ts-rs were produced by fresh sub-agents that saw **only the text of one property and
a scratch worktree** (nothing from /verif). Each was asked for two realistic changes that break the
property, still compile and pass the repository's 471 tests, and need something specific to
manifest. I kept a change only after confirming all of that myself (`tools/trial.py verify`: apply
in a scratch worktree, run the suite, run the author's demonstration without and with the change);
all 68 were confirmed. They live in `seeded/<id>/` (`patch.diff`, `demo.rs`, `notes.md`,
`meta.json` with what was run and every check's verdict). Trials run the registered quick commands
inside a private mount namespace (`tools/partrial.py`: a copy of /repo with the patch applied is
bind-mounted over /repo, a copy of /verif over /verif), so the real /repo is never modified.

Three waves, so that detection is measured on changes the checks were **not** tuned on:

* **wave 1** (34 changes, all 17 properties, against the first complete framework): 23 caught at
  first evaluation (13 by the property's own check), 11 missed. Every miss named a hole in an
  alphabet (same type used twice in one container, several flattened fields, attributes combined on
  one field, `concrete` split over attributes, const defaults, dot-directories, inline form of
  library types, wrappers around flattened types, representation-key triples, doc text naming a
  sibling type …); the corpora were extended *generically* (families, not the single failing input).
* **wave 2** (20 changes, the 10 weakest properties, after that strengthening): 14 caught at first
  evaluation, 6 missed (type-override fields with non-identifier keys, `concrete` + default on one
  parameter, container bound to the parameter of an inlined generic / aliases, wrapped map keys,
  const before type parameters, variant-level `type` override) - again closed by extending families.
* **wave 3** (14 changes, the history/schedule/attribute properties, on the repaired tree with the
  rewritten merge): 13 caught at first evaluation (one only after the scheduler learnt to turn
  "the same schedule gives another result the second time" into a finding instead of a replay
  divergence), 1 missed (container `type`/`as` + serde `rename`; C10 slots added).

With the final framework (full re-run of all 65 re-runnable changes, `.build/partrial_final.log`)
every change is caught and no check ended in a machinery error; 63 of 65 are caught by the check
of the property they were written against. The two others are caught by neighbouring checks
because the change, as it manifests, does not violate the target property's own clause: C13-m1
after its port to the rewritten merge is deterministic but leaves import names unsorted (a C05
matter); C13-w3m2 makes the result depend on the entry point used (C06's clause; C13 enumerates
orders and schedules of `export_all`). Three wave-1 changes modify the
textual merge that fix 0e0de93 replaced and cannot be applied to later trees; their verdicts are
from the tree they were written for (C15-m2 was *not* caught there: its effect was inside the
population the then-open finding F03 absorbed - the reason F02-F04 were repaired rather than
kept as known findings). No check raised an alarm for a property the change does not break that I
could not trace to a real consequence of the change (the multi-property rows are genuine: e.g. a
lost dependency breaks imports (C03), the file set (C11) and the parse of the importing module).

Side findings reported by the sub-agents on the unchanged tree (all reproduced by the machinery
after the alphabets were extended, then repaired): F20 (unbalanced parentheses), F21 (doc text
starting with `/`), F22 (object merge rewriting doc text).

Bold = the property's own check.

''' + table
open(p, "w").write(s.rstrip("\n") + "\n\n\n" + text)
