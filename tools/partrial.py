#!/usr/bin/env python3
"""Parallel seeded-change trials in private mount namespaces.

  partrial.py <n_workers> <seeded-id>... [-- <check-id>...]

Every worker owns a private copy of /repo and of /verif (with its build caches) under
/tmp/par/w<k>/ and runs the checks inside `unshare -m` with those copies bind-mounted over /repo
and /verif - so the checks run exactly as registered (same absolute paths), the real /repo is never
touched, and several trials run at once. Results are merged into /verif/seeded/<id>/meta.json.
"""
import json
import os
import queue
import subprocess
import sys
import threading
import time

VERIF = "/verif"
PAR = os.environ.get("PARTRIAL_DIR", "/tmp/par")


def sh(cmd, cwd=None, timeout=7200):
    p = subprocess.run(cmd, cwd=cwd, stdout=subprocess.PIPE, stderr=subprocess.STDOUT, text=True, timeout=timeout, shell=isinstance(cmd, str))
    return p.returncode, p.stdout


def sync_worker(k):
    w = os.path.join(PAR, f"w{k}")
    os.makedirs(w, exist_ok=True)
    rc, out = sh(f"rsync -a --delete --exclude /target /repo/ {w}/repo/")
    assert rc == 0, out
    # sources of the framework: always current; build caches: seeded once, then kept
    first = not os.path.isdir(f"{w}/verif/.build")
    base = os.environ.get("PARTRIAL_BASE", "/verif")   # frozen snapshot of the framework sources
    if first:
        os.makedirs(f"{w}/verif", exist_ok=True)
        rc, out = sh(f"rsync -a /verif/.build {w}/verif/")
        assert rc == 0, out
    rc, out = sh(f"rsync -a --delete --exclude /.build --exclude /evidence --exclude /replays --exclude /.git {base}/ {w}/verif/")
    assert rc == 0, out
    return w


def run_one(k, sid, checks):
    w = sync_worker(k)
    repo = f"{w}/repo"
    sh(["git", "reset", "-q", "--hard", "HEAD"], cwd=repo)
    patch = os.path.join(VERIF, "seeded", sid, "patch.diff")
    rc, out = sh(["git", "apply", patch], cwd=repo)
    if rc != 0:
        return {"error": "patch does not apply to current /repo HEAD: " + out[-400:]}
    results = {}
    for pid in checks:
        t0 = time.time()
        inner = f"mount --bind {w}/repo /repo && mount --bind {w}/verif /verif && cd /verif && ./check {pid} --tier quick"
        rc, out = sh(["unshare", "-m", "sh", "-c", inner], timeout=3600)
        viol = [l for l in out.splitlines() if l.startswith("VIOLATION")]
        classes = [l.strip()[:400] for l in out.splitlines() if l.strip().startswith("class=")]
        results[pid] = {"exit": rc, "violations": len(viol), "classes": classes[:6], "wall_s": round(time.time() - t0, 1),
                        "tail": out.splitlines()[-1][:300] if out.strip() else ""}
        print(f"[w{k}] {sid} {pid} exit {rc} violations {len(viol)}", flush=True)
    sh(["git", "reset", "-q", "--hard", "HEAD"], cwd=repo)
    return {"checks_run": results}


def main():
    args = sys.argv[1:]
    n = int(args[0])
    rest = args[1:]
    if "--" in rest:
        i = rest.index("--")
        ids, checks = rest[:i], rest[i + 1:]
    else:
        ids, checks = rest, []
    if not checks:
        checks = [c["property_id"] for c in json.load(open(os.path.join(VERIF, "MANIFEST.json")))["checks"]]
    head = sh(["git", "-C", "/repo", "rev-parse", "--short", "HEAD"])[1].strip()
    vhead = sh(["git", "-C", "/verif", "rev-parse", "--short", "HEAD"])[1].strip()
    q = queue.Queue()
    for s in ids:
        q.put(s)
    lock = threading.Lock()

    def worker(k):
        while True:
            try:
                sid = q.get_nowait()
            except queue.Empty:
                return
            meta_p = os.path.join(VERIF, "seeded", sid, "meta.json")
            my_checks = checks
            if os.environ.get("PARTRIAL_MODE") == "own_prev":
                # final confirmation run: the property's own check + every check that ever reported this change
                m0 = json.load(open(meta_p))
                my_checks = sorted(set([m0["breaks_property"]] + m0.get("detected_by", []) + m0.get("first_run_detected_by", [])
                                       + (m0.get("round1", {}).get("detected_by") or [])))
            r = run_one(k, sid, my_checks)
            with lock:
                meta = json.load(open(meta_p)) if os.path.exists(meta_p) else {}
                if os.environ.get("PARTRIAL_MODE") == "own_prev" and "error" not in r:
                    # results of this run only
                    meta["checks_run"] = {}
                if "error" in r:
                    meta["trial_error"] = r["error"]
                    print(sid, "ERROR", r["error"][:200], flush=True)
                else:
                    meta.pop("trial_error", None)
                    prev = meta.get("checks_run", {})
                    prev.update(r["checks_run"])
                    meta["checks_run"] = prev
                    meta["detected_by"] = sorted(p for p, x in prev.items() if x["exit"] == 1)
                    meta["machinery_errors"] = sorted(p for p, x in prev.items() if x["exit"] not in (0, 1))
                    meta["repo_head_when_run"] = head
                    meta["verif_head_when_run"] = vhead
                    print(sid, "detected by", meta["detected_by"], "machinery errors", meta["machinery_errors"], flush=True)
                json.dump(meta, open(meta_p, "w"), indent=1)

    ts = [threading.Thread(target=worker, args=(k,)) for k in range(n)]
    for t in ts:
        t.start()
    for t in ts:
        t.join()


if __name__ == "__main__":
    main()
