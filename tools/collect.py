#!/usr/bin/env python3
"""Copy an agent's verified deliverable into /verif/seeded/<P>-m<k>/ with meta.json."""
import json, os, shutil, sys
props = {json.loads(l)["id"]: json.loads(l) for l in open("/verif/properties.jsonl")}
for d in sys.argv[1:]:
    pid = os.path.basename(os.path.dirname(d)).replace("out_", "")
    k = os.path.basename(d)
    v = json.load(open(os.path.join(d, "verify.json")))
    ok = v.get("patch_applies") and v.get("suite_with_change", {}).get("ok") and v.get("demo_without_change_passes") and v.get("demo_with_change_fails")
    if not ok:
        print("NOT CONFIRMED", d, {k2: v.get(k2) for k2 in ("patch_applies", "demo_without_change_passes", "demo_with_change_fails")}, v.get("suite_with_change"))
        continue
    sid = f"{pid}-{k}"
    dst = os.path.join("/verif/seeded", sid)
    os.makedirs(dst, exist_ok=True)
    for f in ("patch.diff", "demo.rs", "notes.md"):
        shutil.copy(os.path.join(d, f), os.path.join(dst, f))
    notes = open(os.path.join(d, "notes.md")).read()
    meta_p = os.path.join(dst, "meta.json")
    meta = json.load(open(meta_p)) if os.path.exists(meta_p) else {}
    meta.update({
        "id": sid,
        "breaks_property": pid,
        "property_title": props[pid]["title"],
        "source": "independent sub-agent given only the property text and a scratch worktree",
        "needs_to_manifest": notes.strip().splitlines()[0:12],
        "confirmed_by_me": {
            "how": "tools/trial.py verify: in a scratch worktree - `git apply patch.diff`; `cargo test --workspace --no-fail-fast --offline` (must pass); demo.rs as ts-rs/tests/zz_demo_trial.rs: passes without the change, fails with it",
            "suite_with_change": v["suite_with_change"],
            "demo_without_change_passes": True,
            "demo_with_change_fails": True,
        },
    })
    json.dump(meta, open(meta_p, "w"), indent=1)
    print("collected", sid)
