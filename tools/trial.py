#!/usr/bin/env python3
"""Seeded-change trials.

  trial.py verify <outdir> <worktree>     confirm an agent's claim in its scratch worktree:
                                          suite passes with the change, demo passes without, fails with
  trial.py run <seeded-id> [checks...]    apply /verif/seeded/<id>/patch.diff to /repo, run the checks
                                          (default: all of MANIFEST.json, quick tier), undo, record results
"""
import json
import os
import subprocess
import sys
import time

VERIF = os.path.dirname(os.path.dirname(os.path.abspath(__file__)))


def sh(cmd, cwd=None, timeout=3600, env=None):
    p = subprocess.run(cmd, cwd=cwd, stdout=subprocess.PIPE, stderr=subprocess.STDOUT, text=True, timeout=timeout, shell=isinstance(cmd, str), env=env)
    return p.returncode, p.stdout


def suite(wt):
    rc, out = sh("cargo test --workspace --no-fail-fast --offline 2>&1", cwd=wt)
    passed = failed = 0
    for l in out.splitlines():
        if l.startswith("test result:"):
            parts = l.split()
            passed += int(parts[3])
            failed += int(parts[5])
    return rc == 0 and failed == 0, passed, failed


def demo(wt, demo_src):
    dst = os.path.join(wt, "ts-rs", "tests", "zz_demo_trial.rs")
    with open(dst, "w") as f:
        f.write(open(demo_src).read())
    try:
        env = dict(os.environ)
        env.pop("TS_RS_EXPORT_DIR", None)
        rc, out = sh("cargo test --offline -p ts-rs --test zz_demo_trial 2>&1", cwd=wt, env=env)
        return rc == 0, out[-1500:]
    finally:
        os.remove(dst)


def verify(outdir, wt):
    res = {}
    patch = os.path.join(outdir, "patch.diff")
    sh("git checkout -- . && git clean -fdq ts-rs/tests macros/src ts-rs/src", cwd=wt)
    ok, tail = demo(wt, os.path.join(outdir, "demo.rs"))
    res["demo_without_change_passes"] = ok
    if not ok:
        res["demo_without_tail"] = tail
    rc, out = sh(["git", "apply", patch], cwd=wt)
    res["patch_applies"] = rc == 0
    if rc != 0:
        res["apply_error"] = out[-500:]
        return res
    try:
        ok, p, f = suite(wt)
        res["suite_with_change"] = {"ok": ok, "passed": p, "failed": f}
        ok, tail = demo(wt, os.path.join(outdir, "demo.rs"))
        res["demo_with_change_fails"] = not ok
        res["demo_with_tail"] = tail[-600:]
    finally:
        sh("git checkout -- . && git clean -fdq ts-rs/tests", cwd=wt)
    return res


def run(sid, checks):
    sdir = os.path.join(VERIF, "seeded", sid)
    patch = os.path.join(sdir, "patch.diff")
    man = json.load(open(os.path.join(VERIF, "MANIFEST.json")))
    if not checks:
        checks = [c["property_id"] for c in man["checks"]]
    rc, out = sh(["git", "-C", "/repo", "status", "--porcelain", "--untracked-files=no"])
    if out.strip():
        print("refusing: /repo has local modifications:\n" + out)
        return 2
    rc, out = sh(["git", "-C", "/repo", "apply", patch])
    if rc != 0:
        rc, out = sh(["git", "-C", "/repo", "apply", "-3", patch])
        if rc != 0:
            print("patch does not apply:", out[-800:])
            sh("git -C /repo checkout -- . && git -C /repo reset -q", shell=True) if False else None
            return 2
        sh(["git", "-C", "/repo", "reset", "-q"])
    results = {}
    try:
        for pid in checks:
            t0 = time.time()
            rc, out = sh(["./check", pid, "--tier", "quick"], cwd=VERIF, timeout=3000)
            viol = [l for l in out.splitlines() if l.startswith("VIOLATION")]
            classes = [l.strip() for l in out.splitlines() if l.strip().startswith("class=")]
            results[pid] = {"exit": rc, "violations": len(viol), "classes": classes[:6], "wall_s": round(time.time() - t0, 1),
                            "tail": out.splitlines()[-1][:300] if out.strip() else ""}
            print(sid, pid, "exit", rc, "violations", len(viol), flush=True)
    finally:
        sh(["git", "-C", "/repo", "checkout", "--", "."])
    meta_p = os.path.join(sdir, "meta.json")
    meta = json.load(open(meta_p)) if os.path.exists(meta_p) else {}
    meta["checks_run"] = results
    meta["detected_by"] = sorted(p for p, r in results.items() if r["exit"] == 1)
    meta["machinery_errors"] = sorted(p for p, r in results.items() if r["exit"] not in (0, 1))
    meta["repo_head_when_run"] = sh(["git", "-C", "/repo", "rev-parse", "--short", "HEAD"])[1].strip()
    with open(meta_p, "w") as f:
        json.dump(meta, f, indent=1)
    print(sid, "detected by", meta["detected_by"], "machinery errors", meta["machinery_errors"])
    return 0


if __name__ == "__main__":
    if sys.argv[1] == "verify":
        print(json.dumps(verify(sys.argv[2], sys.argv[3]), indent=1))
    elif sys.argv[1] == "run":
        sys.exit(run(sys.argv[2], sys.argv[3:]))
