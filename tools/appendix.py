#!/usr/bin/env python3
"""Prints the seeded-change table (DESIGN.md Appendix B) from seeded/*/meta.json."""
import json, glob, re
rows = []
for d in sorted(glob.glob("/verif/seeded/*/")):
    m = json.load(open(d + "meta.json"))
    notes = open(d + "notes.md").read()
    # first meaningful line of the notes
    line = ""
    for l in notes.splitlines():
        l = l.strip().lstrip("#").strip()
        if len(l) > 25 and not l.lower().startswith(("notes", "mutation", "change", "m1", "m2")):
            line = l
            break
    line = re.sub(r"\s+", " ", line).replace("|", "\\|")[:170]
    w = re.search(r"-w(\d+)m", m["id"])
    wave = "1" if "-m" in m["id"] else (w.group(1) if w else "own")
    r1 = m.get("round1", {}).get("detected_by")
    final = m.get("detected_by", [])
    first = r1 if r1 is not None else m.get("first_run_detected_by", final)
    ported = "port" if "patch_original.diff" in " ".join(glob.glob(d + "*")) else ""
    stale = "not re-runnable" if "has no faithful counterpart" in m.get("note", "") else ""
    rows.append((m["id"], wave, m["breaks_property"], line, first, final, ported or stale))
print("| id | wave | breaks | what (from the author's notes) | caught at first evaluation by | caught by (final framework) | |")
print("|---|---|---|---|---|---|---|")
for sid, wave, prop, line, first, final, flag in rows:
    own = lambda l: ", ".join(("**%s**" % p) if p == prop else p for p in l) or "—"
    print(f"| {sid} | {wave} | {prop} | {line} | {own(first)} | {own(final)} | {flag} |")
