#!/usr/bin/env python3
"""Prints the seeded-change table (DESIGN.md Appendix B) from seeded/*/meta.json."""
import json, os, glob
rows = []
for d in sorted(glob.glob("/verif/seeded/*/")):
    m = json.load(open(d + "meta.json"))
    sid = m["id"]
    what = " ".join(m.get("needs_to_manifest", [])[:3])
    r1 = m.get("round1", {}).get("detected_by")
    if r1 is None and "round1" not in m:
        r1 = None
    det = m.get("detected_by", [])
    own = m["breaks_property"] in det
    rows.append((sid, m["breaks_property"], det, own, m.get("repo_head_when_run"), m.get("verif_head_when_run"), m.get("round1", {}), m.get("note", "")))
print("| seeded change | breaks | caught by (quick tier, final framework) | own check | first round (before strengthening) |")
print("|---|---|---|---|---|")
for sid, prop, det, own, rh, vh, r1, note in rows:
    first = ", ".join(r1.get("detected_by") or []) if r1 else ""
    print(f"| {sid} | {prop} | {', '.join(det) or '**none**'} | {'yes' if own else 'no'} | {first} |")
