#!/bin/sh
# Build the framework offline from files on disk: oracle library (+ its own unit tests) and the
# export explorer against /repo's working tree.
set -e
cd "$(dirname "$0")"
export CARGO_NET_OFFLINE=true
export RUSTFLAGS="--cfg ts_rs_verif"
export CARGO_TARGET_DIR="$PWD/.build/h"
[ -f harness/Cargo.lock ] || cp /repo/Cargo.lock harness/Cargo.lock
cd harness
cargo test --offline -p tsmodel 2>&1 | tail -5
cargo build --offline -p e3 2>&1 | tail -2
