#!/bin/sh
# Build the framework offline from files on disk: oracle library (+ its own unit tests), the
# export explorer, the in-process macro harness and the generated corpora, all against /repo's
# working tree, so that a check afterwards only pays for what changed in /repo.
set -e
cd "$(dirname "$0")"
export CARGO_NET_OFFLINE=true
export RUSTFLAGS="--cfg ts_rs_verif"
export CARGO_TARGET_DIR="$PWD/.build/h"
[ -f harness/Cargo.lock ] || cp /repo/Cargo.lock harness/Cargo.lock
(cd harness && cargo test --offline -p tsmodel 2>&1 | tail -4)
unset CARGO_TARGET_DIR RUSTFLAGS
python3 lib/prebuild.py
