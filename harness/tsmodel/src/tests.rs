use serde_json::json;

use super::*;

fn env(src: &str) -> Env {
    env_of(parse_module(src).unwrap().decls)
}
fn m(e: &Env, t: &str, v: Value) -> bool {
    member(e, &parse_type(t).unwrap(), &v).unwrap()
}

#[test]
fn primitives_and_exact_objects() {
    let e = Env::new();
    assert!(m(&e, "number", json!(1.5)));
    assert!(!m(&e, "bigint", json!(1.5)));
    assert!(m(&e, "bigint", json!(18446744073709551615u64)));
    assert!(!m(&e, "number", json!("1")));
    assert!(m(&e, "{ a: number, b?: string }", json!({"a": 1})));
    assert!(m(&e, "{ a: number, b?: string }", json!({"a": 1, "b": "x"})));
    assert!(!m(&e, "{ a: number, b?: string }", json!({"a": 1, "b": null})));
    assert!(!m(&e, "{ a: number }", json!({"a": 1, "c": 1})), "objects are exact");
    assert!(!m(&e, "{ a: number }", json!({})));
    assert!(m(&e, "{ a: number | null }", json!({"a": null})));
    assert!(!m(&e, "{ a: number | null }", json!({})), "nullable is not optional");
}

#[test]
fn tuples_arrays_records() {
    let e = Env::new();
    assert!(m(&e, "[number, string]", json!([1, "a"])));
    assert!(!m(&e, "[number, string]", json!([1])));
    assert!(!m(&e, "[number, string]", json!([1, "a", 2])));
    assert!(m(&e, "Array<number>", json!([])));
    assert!(m(&e, "never[]", json!([])));
    assert!(!m(&e, "never[]", json!([1])));
    assert!(m(&e, "Record<string, never>", json!({})));
    assert!(!m(&e, "Record<string, never>", json!({"a": 1})));
    assert!(m(&e, "{ [key in string]?: number }", json!({"a": 1, "b": 2})));
    assert!(!m(&e, "{ [key in string]?: number }", json!({"a": "x"})));
    assert!(m(&e, "{ [key in \"x\" | \"y\"]?: number }", json!({"x": 1})));
    assert!(!m(&e, "{ [key in \"x\" | \"y\"]?: number }", json!({"z": 1})));
    assert!(m(&e, "{ [key in number]?: string }", json!({"1": "a"})));
    assert!(!m(&e, "{ [key in number]?: string }", json!({"a": "a"})));
}

#[test]
fn intersections_merge_objects() {
    let e = env("type A = { x: number }; type U = { k: \"a\", v: number } | { k: \"b\" };");
    assert!(m(&e, "{ t: \"V\" } & A", json!({"t": "V", "x": 1})));
    assert!(!m(&e, "{ t: \"V\" } & A", json!({"x": 1})));
    assert!(!m(&e, "{ t: \"V\" } & A", json!({"t": "V"})));
    // distribution over unions
    assert!(m(&e, "{ t: \"V\" } & U", json!({"t": "V", "k": "b"})));
    assert!(m(&e, "{ t: \"V\" } & U", json!({"t": "V", "k": "a", "v": 1})));
    assert!(!m(&e, "{ t: \"V\" } & U", json!({"t": "V", "k": "b", "v": 1})));
    // object & non-object is empty
    assert!(!m(&e, "{ t: \"V\" } & null", json!({"t": "V"})));
    assert!(!m(&e, "{ t: \"V\" } & null", json!(null)));
    assert!(!m(&e, "{ t: \"V\" } & number", json!(1)));
    // same property on both sides: intersection of the property types
    assert!(m(&e, "{ a: string } & { a: \"x\" }", json!({"a": "x"})));
    assert!(!m(&e, "{ a: string } & { a: \"x\" }", json!({"a": "y"})));
    assert!(!m(&e, "{ a: string } & { a: number }", json!({"a": 1})));
    // an index signature constrains the other side's properties
    assert!(!m(&e, "{ t: \"V\" } & Record<string, never>", json!({"t": "V"})));
}

#[test]
fn generics_and_recursion() {
    let e = env(
        "type G<T, U = number> = { v: T, u: U, l: Array<T> }; \
         type L = { next: L | null, v: number };",
    );
    assert!(m(&e, "G<string>", json!({"v": "a", "u": 1, "l": ["b"]})));
    assert!(!m(&e, "G<string>", json!({"v": "a", "u": "x", "l": []})));
    assert!(m(&e, "G<string, null>", json!({"v": "a", "u": null, "l": []})));
    assert!(m(&e, "L", json!({"next": {"next": null, "v": 2}, "v": 1})));
    let t = parse_type("L").unwrap();
    let mut st = WitnessStats::default();
    let ws = witnesses(&e, &t, &WitnessCfg::default(), &mut st).unwrap();
    assert!(ws.len() > 2);
    for w in &ws {
        assert!(member(&e, &t, w).unwrap(), "witness {w} must inhabit its type");
    }
}

#[test]
fn witnesses_inhabit_and_distinguish() {
    let e = Env::new();
    let cfg = WitnessCfg::default();
    for t in [
        "{ a: number, b?: string | null }",
        "[number, boolean] | null",
        "Array<{ k: \"x\" } | \"u\">",
        "{ [key in string]?: [null] }",
        "{ t: \"A\" } & ({ a: number } | { b: string })",
    ] {
        let ty = parse_type(t).unwrap();
        let mut st = WitnessStats::default();
        let ws = witnesses(&e, &ty, &cfg, &mut st).unwrap();
        assert!(!ws.is_empty(), "{t}");
        for w in ws {
            assert!(member(&e, &ty, &w).unwrap(), "{t}: {w}");
        }
    }
    let a = parse_type("{ a: number, b?: string }").unwrap();
    let b = parse_type("{ a: number, b: string | null }").unwrap();
    let d = distinguish(&e, &a, &e, &b, &cfg).unwrap().unwrap();
    assert!(d.in_left != d.in_right);
    let c = parse_type("{ a: number } & { b?: string }").unwrap();
    assert!(distinguish(&e, &a, &e, &c, &cfg).unwrap().is_none());
}

#[test]
fn unsupported_is_reported_not_guessed() {
    assert!(parse_type("T extends U ? X : Y").is_err());
    assert!(parse_type("`a${string}`").is_err());
    assert!(parse_type("any").is_err());
    assert!(parse_type("{ a: number ").is_err());
    let e = Env::new();
    assert!(member(&e, &parse_type("Unknown").unwrap(), &json!(1)).is_err());
}

#[test]
fn module_layout_and_comments() {
    let src = "// note\nimport type { B } from \"./B\";\n\n/**\n * doc\n */\nexport type A = { \n/**\n * f\n */\nx: B, };\n";
    let md = parse_module(src).unwrap();
    assert!(md.layout_errors.is_empty(), "{:?}", md.layout_errors);
    assert_eq!(md.imports[0].names, vec!["B"]);
    assert_eq!(md.imports[0].spec, "./B");
    assert_eq!(md.decls[0].comments.len(), 1);
    assert!(md.decls[0].comments[0].contains("doc"));
    match &md.decls[0].body {
        Ty::Object(o) => assert!(o.props[0].comments[0].contains(" f")),
        _ => panic!(),
    }
    assert_eq!(decl_free_names(&md.decls[0]).into_iter().collect::<Vec<_>>(), vec!["B"]);
    let bad = parse_module("// n\nexport type A = number;\nimport { B } from \"./B\";\nconst x = 1;\n").unwrap();
    assert!(bad.layout_errors.len() >= 3, "{:?}", bad.layout_errors);
    // a comment terminator inside doc text ends the comment early => parse error or stray items
    let early = parse_module("/**\n * has */ inside\n */\nexport type A = number;\n");
    assert!(early.is_err() || !early.unwrap().layout_errors.is_empty());
}

#[test]
fn string_values_are_cooked() {
    let t = parse_type(r#"{ "a\"b": "x\\y" }"#).unwrap();
    match t {
        Ty::Object(o) => {
            assert_eq!(o.props[0].key, "a\"b");
            assert_eq!(o.props[0].ty, Ty::Lit("x\\y".into()));
        }
        _ => panic!(),
    }
}

#[test]
fn path_resolver() {
    use paths::*;
    assert_eq!(normalize("/a/./b/../c").as_deref(), Some("/a/c"));
    assert_eq!(normalize("/a/../..").as_deref(), None);
    assert_eq!(normalize("/").as_deref(), Some("/"));
    assert_eq!(resolve_spec("/r/b/A.ts", "./B", false).as_deref(), Some("/r/b/B.ts"));
    assert_eq!(resolve_spec("/r/b/A.ts", "../x/B", false).as_deref(), Some("/r/x/B.ts"));
    assert_eq!(resolve_spec("/r/b/A.ts", "./B.js", true).as_deref(), Some("/r/b/B.ts"));
    assert_eq!(resolve_spec("/r/b/A.ts", "./x.ts", false).as_deref(), Some("/r/b/x.ts.ts"));
    assert!(spec_syntax_errors("B", false).len() == 1);
    assert!(spec_syntax_errors("./B.js", false).len() == 1);
    assert!(spec_syntax_errors("./B", true).len() == 1);
    assert!(spec_syntax_errors("../a/B", false).is_empty());
}

#[test]
fn reference_file_model() {
    use refmodel::*;
    let a = "// n\nimport type { X } from \"./X\";\n\n/**\n * d\n\n * e\n */\nexport type B = X;\n";
    let b = "// n\nimport type { Y, X } from \"./X\";\nimport type { Z } from \"../Z\";\n\nexport type A = [X, Y, Z];\n";
    let sa = split_single("B", a).unwrap();
    let sb = split_single("A", b).unwrap();
    assert_eq!(sa.block, "/**\n * d\n\n * e\n */\nexport type B = X;");
    assert_eq!(expected_file(&[sa.clone()]), a);
    let f = expected_file(&[sa.clone(), sb.clone()]);
    assert_eq!(f, expected_file(&[sb, sa]));
    assert_eq!(
        f,
        "// n\nimport type { Z } from \"../Z\";\nimport type { X, Y } from \"./X\";\n\nexport type A = [X, Y, Z];\n\n/**\n * d\n\n * e\n */\nexport type B = X;\n"
    );
}

#[test]
fn mutants_differ() {
    let v = json!({"t": "A", "c": [1, 2]});
    let ms = mutants(&v, &["B".to_string()]);
    assert!(ms.len() >= 6);
    assert!(ms.iter().all(|m| m != &v));
}
