//! Independent lexical path resolver (shares no code with ts-rs's `path.rs`).

/// Lexically normalise an absolute `/`-separated path. `None` if it climbs above the root.
pub fn normalize(path: &str) -> Option<String> {
    assert!(path.starts_with('/'), "normalize needs an absolute path: {path:?}");
    let mut out: Vec<&str> = vec![];
    for c in path.split('/') {
        match c {
            "" | "." => {}
            ".." => {
                out.pop()?;
            }
            c => out.push(c),
        }
    }
    Some(format!("/{}", out.join("/")))
}

/// `base` joined with `rel` (an absolute `rel` replaces `base`), not normalised.
pub fn join(base: &str, rel: &str) -> String {
    if rel.starts_with('/') {
        rel.to_owned()
    } else if base.ends_with('/') {
        format!("{base}{rel}")
    } else {
        format!("{base}/{rel}")
    }
}

pub fn dirname(abs_norm: &str) -> String {
    match abs_norm.rfind('/') {
        Some(0) | None => "/".to_owned(),
        Some(i) => abs_norm[..i].to_owned(),
    }
}

/// The syntactic clauses of the specifier rule. Returns the list of problems.
pub fn spec_syntax_errors(spec: &str, esm: bool) -> Vec<String> {
    let mut e = vec![];
    if !(spec.starts_with("./") || spec.starts_with("../")) {
        e.push(format!("specifier {spec:?} does not start with ./ or ../"));
    }
    if spec.contains('\\') {
        e.push(format!("specifier {spec:?} contains a backslash"));
    }
    if esm {
        if !spec.ends_with(".js") {
            e.push(format!("specifier {spec:?} does not end in .js although ESM imports are on"));
        }
    } else if spec.ends_with(".js") {
        e.push(format!("specifier {spec:?} ends in .js although ESM imports are off"));
    }
    e
}

/// TypeScript's relative-module rule: the file a relative specifier denotes, given the importing
/// file (absolute, normalised). `None` if it climbs above the root.
pub fn resolve_spec(importer_abs_norm: &str, spec: &str, esm: bool) -> Option<String> {
    let stem = if esm {
        spec.strip_suffix(".js").unwrap_or(spec)
    } else {
        spec
    };
    let joined = join(&dirname(importer_abs_norm), stem);
    let n = normalize(&joined)?;
    // a specifier ending in `/`, `/.` or `/..` names a directory, not a file
    if stem.ends_with('/') || stem.ends_with("/.") || stem.ends_with("/..") || stem == "." || stem == ".." {
        return Some(format!("{n}/<directory>"));
    }
    Some(format!("{n}.ts"))
}
