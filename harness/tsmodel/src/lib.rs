//! tsmodel — the oracle library.
//!
//! * parsing is swc's (an independent TypeScript grammar);
//! * `Ty` is a deliberately small type language, `denotation = set of JSON values`;
//! * membership / witness enumeration / equivalence-with-witness / free names /
//!   module layout / relative-specifier resolution.
//!
//! Anything outside the fragment yields `Err(Unsupported)` — never a guess.

use std::collections::{BTreeMap, BTreeSet};

use serde_json::Value;
use swc_common::{
    comments::{Comments, SingleThreadedComments},
    sync::Lrc,
    BytePos, FileName, SourceMap,
};
use swc_ecma_ast as ast;
use swc_ecma_parser::{lexer::Lexer, Parser, StringInput, Syntax, TsConfig};

pub mod paths;
pub mod refmodel;

#[derive(Debug, Clone, PartialEq, Eq)]
pub struct Unsupported(pub String);

pub type R<T> = Result<T, Unsupported>;

fn unsup<T>(s: impl Into<String>) -> R<T> {
    Err(Unsupported(s.into()))
}

#[derive(Debug, Clone, PartialEq, Eq, PartialOrd, Ord)]
pub enum Ty {
    Number,
    BigInt,
    String,
    Boolean,
    Null,
    Never,
    Lit(String),
    Array(Box<Ty>),
    Tuple(Vec<Ty>),
    /// Exact object: fixed properties plus index signatures (`[key in K]?: V`).
    Object(Obj),
    Union(Vec<Ty>),
    Inter(Vec<Ty>),
    Ref(String, Vec<Ty>),
}

#[derive(Debug, Clone, PartialEq, Eq, PartialOrd, Ord, Default)]
pub struct Obj {
    pub props: Vec<Prop>,
    /// (key type, optional?, value type)
    pub index: Vec<(Ty, bool, Ty)>,
}

#[derive(Debug, Clone, Eq)]
pub struct Prop {
    pub key: String,
    pub optional: bool,
    pub ty: Ty,
    /// Leading comments (text between the delimiters); ignored by Eq/Ord.
    pub comments: Vec<String>,
    /// whether the key was written as a quoted string
    pub quoted: bool,
}

impl PartialEq for Prop {
    fn eq(&self, o: &Self) -> bool {
        self.key == o.key && self.optional == o.optional && self.ty == o.ty
    }
}
impl PartialOrd for Prop {
    fn partial_cmp(&self, o: &Self) -> Option<std::cmp::Ordering> {
        Some(self.cmp(o))
    }
}
impl Ord for Prop {
    fn cmp(&self, o: &Self) -> std::cmp::Ordering {
        (&self.key, self.optional, &self.ty).cmp(&(&o.key, o.optional, &o.ty))
    }
}

#[derive(Debug, Clone, PartialEq, Eq)]
pub struct Decl {
    pub name: String,
    pub params: Vec<(String, Option<Ty>)>,
    pub body: Ty,
    pub exported: bool,
    /// Leading comments attached to the `export`/`type` keyword.
    pub comments: Vec<String>,
}

#[derive(Debug, Clone, PartialEq, Eq)]
pub struct Import {
    pub names: Vec<String>,
    pub spec: String,
    pub type_only: bool,
}

#[derive(Debug, Clone, Default)]
pub struct Module {
    pub first_line_comment: Option<String>,
    pub imports: Vec<Import>,
    pub decls: Vec<Decl>,
    /// Layout problems w.r.t. "only `import type` then only `export type`".
    pub layout_errors: Vec<String>,
}

pub type Env = BTreeMap<String, Decl>;

// ------------------------------------------------------------------------------------------------
// Parsing (swc) and lowering
// ------------------------------------------------------------------------------------------------

struct Lower<'a> {
    comments: &'a SingleThreadedComments,
}

pub fn parse_module(src: &str) -> R<Module> {
    let cm: Lrc<SourceMap> = Default::default();
    let fm = cm.new_source_file(FileName::Custom("x.ts".into()), src.to_owned());
    let comments = SingleThreadedComments::default();
    let lexer = Lexer::new(
        Syntax::Typescript(TsConfig::default()),
        ast::EsVersion::latest(),
        StringInput::from(&*fm),
        Some(&comments),
    );
    let mut parser = Parser::new_from(lexer);
    let module = match parser.parse_module() {
        Ok(m) => m,
        Err(e) => return unsup(format!("parse error: {:?}", e.kind())),
    };
    let errs = parser.take_errors();
    if !errs.is_empty() {
        return unsup(format!("parse error (recovered): {:?}", errs[0].kind()));
    }
    let lo = Lower {
        comments: &comments,
    };
    let mut out = Module::default();
    if src.starts_with("//") {
        out.first_line_comment = src.lines().next().map(|l| format!("{l}\n"));
    }
    let mut seen_decl = false;
    for item in &module.body {
        match item {
            ast::ModuleItem::ModuleDecl(ast::ModuleDecl::Import(i)) => {
                if seen_decl {
                    out.layout_errors.push("import after a declaration".into());
                }
                if !i.type_only {
                    out.layout_errors.push("import is not `import type`".into());
                }
                let mut names = vec![];
                for s in &i.specifiers {
                    match s {
                        ast::ImportSpecifier::Named(n) => {
                            if n.imported.is_some() {
                                out.layout_errors.push("renaming import".into());
                            }
                            names.push(n.local.sym.to_string());
                        }
                        _ => out
                            .layout_errors
                            .push("default/namespace import specifier".into()),
                    }
                }
                out.imports.push(Import {
                    names,
                    spec: i.src.value.to_string(),
                    type_only: i.type_only,
                });
            }
            ast::ModuleItem::ModuleDecl(ast::ModuleDecl::ExportDecl(e)) => match &e.decl {
                ast::Decl::TsTypeAlias(a) => {
                    seen_decl = true;
                    let mut d = lo.alias(a)?;
                    d.exported = true;
                    d.comments = lo.leading(e.span.lo);
                    out.decls.push(d);
                }
                _ => out
                    .layout_errors
                    .push("export of something other than a type alias".into()),
            },
            ast::ModuleItem::Stmt(ast::Stmt::Decl(ast::Decl::TsTypeAlias(a))) => {
                seen_decl = true;
                let mut d = lo.alias(a)?;
                d.comments = lo.leading(a.span.lo);
                out.layout_errors
                    .push(format!("type alias `{}` is not exported", d.name));
                out.decls.push(d);
            }
            other => {
                seen_decl = true;
                out.layout_errors.push(format!(
                    "unexpected module item: {}",
                    short(&format!("{other:?}"))
                ));
            }
        }
    }
    Ok(out)
}

fn short(s: &str) -> String {
    s.chars().take(80).collect()
}

/// Parse a declaration as printed by `TS::decl()` (`type X<..> = ..;`).
pub fn parse_decl(src: &str) -> R<Decl> {
    let m = parse_module(src)?;
    if m.decls.len() != 1 || !m.imports.is_empty() {
        return unsup(format!("expected exactly one declaration in {src:?}"));
    }
    Ok(m.decls.into_iter().next().unwrap())
}

/// Parse a bare type expression as printed by `TS::name()` / `TS::inline()`.
pub fn parse_type(src: &str) -> R<Ty> {
    let d = parse_decl(&format!("type __T = {src};"))?;
    Ok(d.body)
}

impl Lower<'_> {
    fn leading(&self, pos: BytePos) -> Vec<String> {
        self.comments
            .get_leading(pos)
            .map(|v| {
                // block comments only: the leading `// ...` notice is not documentation
                v.iter()
                    .filter(|c| c.kind == swc_common::comments::CommentKind::Block)
                    .map(|c| c.text.to_string())
                    .collect()
            })
            .unwrap_or_default()
    }

    fn alias(&self, a: &ast::TsTypeAliasDecl) -> R<Decl> {
        let mut params = vec![];
        if let Some(tp) = &a.type_params {
            for p in &tp.params {
                if p.constraint.is_some() || p.is_in || p.is_out || p.is_const {
                    return unsup("constrained type parameter");
                }
                let def = match &p.default {
                    Some(d) => Some(self.ty(d)?),
                    None => None,
                };
                params.push((p.name.sym.to_string(), def));
            }
        }
        Ok(Decl {
            name: a.id.sym.to_string(),
            params,
            body: self.ty(&a.type_ann)?,
            exported: false,
            comments: vec![],
        })
    }

    fn ty(&self, t: &ast::TsType) -> R<Ty> {
        use ast::TsType as T;
        Ok(match t {
            T::TsKeywordType(k) => {
                use ast::TsKeywordTypeKind as K;
                match k.kind {
                    K::TsNumberKeyword => Ty::Number,
                    K::TsBigIntKeyword => Ty::BigInt,
                    K::TsStringKeyword => Ty::String,
                    K::TsBooleanKeyword => Ty::Boolean,
                    K::TsNullKeyword => Ty::Null,
                    K::TsNeverKeyword => Ty::Never,
                    other => return unsup(format!("keyword type {other:?}")),
                }
            }
            T::TsLitType(l) => match &l.lit {
                ast::TsLit::Str(s) => Ty::Lit(s.value.to_string()),
                other => return unsup(format!("literal type {}", short(&format!("{other:?}")))),
            },
            T::TsArrayType(a) => Ty::Array(Box::new(self.ty(&a.elem_type)?)),
            T::TsTupleType(t) => {
                let mut v = vec![];
                for e in &t.elem_types {
                    if e.label.is_some() {
                        return unsup("labelled tuple element");
                    }
                    v.push(self.ty(&e.ty)?);
                }
                Ty::Tuple(v)
            }
            T::TsParenthesizedType(p) => self.ty(&p.type_ann)?,
            T::TsUnionOrIntersectionType(u) => match u {
                ast::TsUnionOrIntersectionType::TsUnionType(u) => {
                    let mut v = vec![];
                    for t in &u.types {
                        v.push(self.ty(t)?);
                    }
                    Ty::Union(v)
                }
                ast::TsUnionOrIntersectionType::TsIntersectionType(u) => {
                    let mut v = vec![];
                    for t in &u.types {
                        v.push(self.ty(t)?);
                    }
                    Ty::Inter(v)
                }
            },
            T::TsTypeRef(r) => {
                let name = match &r.type_name {
                    ast::TsEntityName::Ident(i) => i.sym.to_string(),
                    _ => return unsup("qualified type name"),
                };
                let mut args = vec![];
                if let Some(p) = &r.type_params {
                    for a in &p.params {
                        args.push(self.ty(a)?);
                    }
                }
                match (name.as_str(), args.len()) {
                    ("Array", 1) => Ty::Array(Box::new(args.pop().unwrap())),
                    ("Record", 2) => {
                        let v = args.pop().unwrap();
                        let k = args.pop().unwrap();
                        Ty::Object(Obj {
                            props: vec![],
                            index: vec![(k, false, v)],
                        })
                    }
                    _ => Ty::Ref(name, args),
                }
            }
            T::TsTypeLit(l) => {
                let mut o = Obj::default();
                for m in &l.members {
                    match m {
                        ast::TsTypeElement::TsPropertySignature(p) => {
                            if p.computed || p.readonly {
                                return unsup("computed/readonly property");
                            }
                            let (key, quoted) = match &*p.key {
                                ast::Expr::Ident(i) => (i.sym.to_string(), false),
                                ast::Expr::Lit(ast::Lit::Str(s)) => (s.value.to_string(), true),
                                ast::Expr::Lit(ast::Lit::Num(n)) => (format!("{}", n.value), false),
                                other => {
                                    return unsup(format!(
                                        "property key {}",
                                        short(&format!("{other:?}"))
                                    ))
                                }
                            };
                            let ty = match &p.type_ann {
                                Some(a) => self.ty(&a.type_ann)?,
                                None => return unsup("property without type"),
                            };
                            o.props.push(Prop {
                                key,
                                optional: p.optional,
                                ty,
                                comments: self.leading(p.span.lo),
                                quoted,
                            });
                        }
                        other => {
                            return unsup(format!(
                                "type element {}",
                                short(&format!("{other:?}"))
                            ))
                        }
                    }
                }
                Ty::Object(o)
            }
            T::TsMappedType(m) => {
                if m.readonly.is_some() || m.name_type.is_some() {
                    return unsup("mapped type modifiers");
                }
                let k = match &m.type_param.constraint {
                    Some(c) => self.ty(c)?,
                    None => return unsup("mapped type without constraint"),
                };
                let optional = match m.optional {
                    None => false,
                    Some(ast::TruePlusMinus::True) | Some(ast::TruePlusMinus::Plus) => true,
                    Some(ast::TruePlusMinus::Minus) => return unsup("-? mapped type"),
                };
                let v = match &m.type_ann {
                    Some(a) => self.ty(a)?,
                    None => return unsup("mapped type without value"),
                };
                Ty::Object(Obj {
                    props: vec![],
                    index: vec![(k, optional, v)],
                })
            }
            other => {
                return unsup(format!(
                    "type construct {}",
                    short(&format!("{other:?}")).split('(').next().unwrap_or("")
                ))
            }
        })
    }
}

// ------------------------------------------------------------------------------------------------
// Structure helpers
// ------------------------------------------------------------------------------------------------

pub fn subst(t: &Ty, m: &BTreeMap<String, Ty>) -> Ty {
    match t {
        Ty::Ref(n, a) if a.is_empty() && m.contains_key(n) => m[n].clone(),
        Ty::Ref(n, a) => Ty::Ref(n.clone(), a.iter().map(|x| subst(x, m)).collect()),
        Ty::Array(e) => Ty::Array(Box::new(subst(e, m))),
        Ty::Tuple(v) => Ty::Tuple(v.iter().map(|x| subst(x, m)).collect()),
        Ty::Union(v) => Ty::Union(v.iter().map(|x| subst(x, m)).collect()),
        Ty::Inter(v) => Ty::Inter(v.iter().map(|x| subst(x, m)).collect()),
        Ty::Object(o) => Ty::Object(Obj {
            props: o
                .props
                .iter()
                .map(|p| Prop {
                    ty: subst(&p.ty, m),
                    ..p.clone()
                })
                .collect(),
            index: o
                .index
                .iter()
                .map(|(k, op, v)| (subst(k, m), *op, subst(v, m)))
                .collect(),
        }),
        other => other.clone(),
    }
}

/// All `Ref` names (with arity) occurring in `t`, minus `bound`.
pub fn free_names(t: &Ty, bound: &BTreeSet<String>, out: &mut BTreeSet<String>) {
    match t {
        Ty::Ref(n, a) => {
            if !bound.contains(n) {
                out.insert(n.clone());
            }
            for x in a {
                free_names(x, bound, out);
            }
        }
        Ty::Array(e) => free_names(e, bound, out),
        Ty::Tuple(v) | Ty::Union(v) | Ty::Inter(v) => {
            for x in v {
                free_names(x, bound, out)
            }
        }
        Ty::Object(o) => {
            for p in &o.props {
                free_names(&p.ty, bound, out);
            }
            for (k, _, v) in &o.index {
                free_names(k, bound, out);
                free_names(v, bound, out);
            }
        }
        _ => {}
    }
}

/// Free names of a declaration: names used in the body and in parameter defaults that are neither
/// a bound parameter nor the declaration's own name.
pub fn decl_free_names(d: &Decl) -> BTreeSet<String> {
    let mut bound: BTreeSet<String> = d.params.iter().map(|p| p.0.clone()).collect();
    bound.insert(d.name.clone());
    let mut out = BTreeSet::new();
    free_names(&d.body, &bound, &mut out);
    for (_, def) in &d.params {
        if let Some(def) = def {
            free_names(def, &bound, &mut out);
        }
    }
    out
}

/// Does the body mention its own name (self-reference)?
pub fn decl_mentions_self(d: &Decl) -> bool {
    let bound: BTreeSet<String> = d.params.iter().map(|p| p.0.clone()).collect();
    let mut out = BTreeSet::new();
    free_names(&d.body, &bound, &mut out);
    out.contains(&d.name)
}

fn instantiate(env: &Env, name: &str, args: &[Ty]) -> R<Ty> {
    let d = match env.get(name) {
        Some(d) => d,
        None => return unsup(format!("unbound type name `{name}`")),
    };
    if args.len() > d.params.len() {
        return unsup(format!("too many type arguments for `{name}`"));
    }
    let mut m = BTreeMap::new();
    for (i, (p, def)) in d.params.iter().enumerate() {
        let a = match args.get(i) {
            Some(a) => a.clone(),
            None => match def {
                Some(def) => subst(def, &m),
                None => return unsup(format!("missing type argument for `{name}`")),
            },
        };
        m.insert(p.clone(), a);
    }
    Ok(subst(&d.body, &m))
}

// ------------------------------------------------------------------------------------------------
// Normalisation: a type as a union of "arms" (no top-level union / intersection / reference)
// ------------------------------------------------------------------------------------------------

const MAX_UNFOLD: usize = 64;

/// Disjunctive normal form at the top level only (lazy below), references unfolded at the top.
pub fn arms(env: &Env, t: &Ty) -> R<Vec<Ty>> {
    arms_d(env, t, 0)
}

fn arms_d(env: &Env, t: &Ty, depth: usize) -> R<Vec<Ty>> {
    if depth > MAX_UNFOLD {
        return unsup("reference unfolding does not terminate (non-contractive type)");
    }
    Ok(match t {
        Ty::Union(v) => {
            let mut out = vec![];
            for x in v {
                out.extend(arms_d(env, x, depth + 1)?);
            }
            out
        }
        Ty::Ref(n, a) => arms_d(env, &instantiate(env, n, a)?, depth + 1)?,
        Ty::Never => vec![],
        Ty::Inter(v) => {
            let mut acc: Vec<Ty> = match v.first() {
                Some(f) => arms_d(env, f, depth + 1)?,
                None => return unsup("empty intersection"),
            };
            for x in &v[1..] {
                let rhs = arms_d(env, x, depth + 1)?;
                let mut next = vec![];
                for a in &acc {
                    for b in &rhs {
                        if let Some(m) = meet(env, a, b)? {
                            next.push(m);
                        }
                    }
                }
                acc = next;
            }
            acc
        }
        other => vec![other.clone()],
    })
}

fn inter2(a: &Ty, b: &Ty) -> Ty {
    if a == b {
        a.clone()
    } else {
        Ty::Inter(vec![a.clone(), b.clone()])
    }
}

/// Intersection of two arms. `None` = empty.
fn meet(env: &Env, a: &Ty, b: &Ty) -> R<Option<Ty>> {
    Ok(match (a, b) {
        (Ty::Object(x), Ty::Object(y)) => {
            if !x.index.is_empty() && !y.index.is_empty() && x.index != y.index {
                return unsup("intersection of two different index signatures");
            }
            // a property of one side is also constrained by the other side's index signatures
            let constrain = |p: &Prop, other: &Obj| -> R<Ty> {
                let mut t = p.ty.clone();
                for (kt, _, vt) in &other.index {
                    if key_member(env, kt, &p.key)? {
                        t = inter2(&t, vt);
                    }
                }
                Ok(t)
            };
            let mut props: Vec<Prop> = vec![];
            for p in &x.props {
                match y.props.iter().find(|q| q.key == p.key) {
                    Some(q) => props.push(Prop {
                        key: p.key.clone(),
                        optional: p.optional && q.optional,
                        ty: inter2(&p.ty, &q.ty),
                        comments: vec![],
                        quoted: p.quoted,
                    }),
                    None => props.push(Prop {
                        ty: constrain(p, y)?,
                        ..p.clone()
                    }),
                }
            }
            for q in &y.props {
                if !x.props.iter().any(|p| p.key == q.key) {
                    props.push(Prop {
                        ty: constrain(q, x)?,
                        ..q.clone()
                    });
                }
            }
            let index = if x.index.is_empty() {
                y.index.clone()
            } else {
                x.index.clone()
            };
            // a required property whose type is uninhabited empties the object
            for p in &props {
                if !p.optional && arms(env, &p.ty)?.is_empty() {
                    return Ok(None);
                }
            }
            Some(Ty::Object(Obj { props, index }))
        }
        (Ty::Lit(l), Ty::String) | (Ty::String, Ty::Lit(l)) => Some(Ty::Lit(l.clone())),
        (Ty::Array(x), Ty::Array(y)) => Some(Ty::Array(Box::new(inter2(x, y)))),
        (Ty::Tuple(x), Ty::Tuple(y)) => {
            if x.len() != y.len() {
                None
            } else {
                Some(Ty::Tuple(
                    x.iter().zip(y).map(|(a, b)| inter2(a, b)).collect(),
                ))
            }
        }
        (Ty::Tuple(x), Ty::Array(e)) | (Ty::Array(e), Ty::Tuple(x)) => {
            Some(Ty::Tuple(x.iter().map(|a| inter2(a, e)).collect()))
        }
        (Ty::BigInt, Ty::Number) | (Ty::Number, Ty::BigInt) => Some(Ty::BigInt),
        (x, y) if x == y => Some(x.clone()),
        (Ty::Union(_) | Ty::Inter(_) | Ty::Ref(..), _) | (_, Ty::Union(_) | Ty::Inter(_) | Ty::Ref(..)) => {
            return unsup("meet of non-normalised arms")
        }
        _ => None,
    })
}

// ------------------------------------------------------------------------------------------------
// Membership
// ------------------------------------------------------------------------------------------------

fn is_integer(n: &serde_json::Number) -> bool {
    n.is_i64() || n.is_u64() || n.as_f64().map_or(false, |f| f.fract() == 0.0 && f.is_finite())
}

/// Does the JSON key `k` belong to the key type `kt`?
fn key_member(env: &Env, kt: &Ty, k: &str) -> R<bool> {
    for arm in arms(env, kt)? {
        let ok = match &arm {
            Ty::String => true,
            Ty::Lit(l) => l == k,
            Ty::Number => k.parse::<f64>().is_ok(),
            Ty::BigInt => k.parse::<i128>().is_ok() || k.parse::<u128>().is_ok(),
            Ty::Boolean => k == "true" || k == "false",
            other => return unsup(format!("map key type {other:?}")),
        };
        if ok {
            return Ok(true);
        }
    }
    Ok(false)
}

pub fn member(env: &Env, t: &Ty, v: &Value) -> R<bool> {
    for arm in arms(env, t)? {
        if member_arm(env, &arm, v)? {
            return Ok(true);
        }
    }
    Ok(false)
}

fn member_arm(env: &Env, arm: &Ty, v: &Value) -> R<bool> {
    Ok(match (arm, v) {
        (Ty::Number, Value::Number(_)) => true,
        (Ty::BigInt, Value::Number(n)) => is_integer(n),
        (Ty::String, Value::String(_)) => true,
        (Ty::Boolean, Value::Bool(_)) => true,
        (Ty::Null, Value::Null) => true,
        (Ty::Lit(l), Value::String(s)) => l == s,
        (Ty::Array(e), Value::Array(xs)) => {
            for x in xs {
                if !member(env, e, x)? {
                    return Ok(false);
                }
            }
            true
        }
        (Ty::Tuple(ts), Value::Array(xs)) => {
            if ts.len() != xs.len() {
                return Ok(false);
            }
            for (t, x) in ts.iter().zip(xs) {
                if !member(env, t, x)? {
                    return Ok(false);
                }
            }
            true
        }
        (Ty::Object(o), Value::Object(m)) => {
            for p in &o.props {
                match m.get(&p.key) {
                    None => {
                        if !p.optional {
                            return Ok(false);
                        }
                    }
                    Some(x) => {
                        if !member(env, &p.ty, x)? {
                            return Ok(false);
                        }
                    }
                }
            }
            for (k, x) in m {
                if o.props.iter().any(|p| &p.key == k) {
                    continue;
                }
                let mut ok = false;
                for (kt, _, vt) in &o.index {
                    if key_member(env, kt, k)? && member(env, vt, x)? {
                        ok = true;
                        break;
                    }
                }
                if !ok {
                    return Ok(false);
                }
            }
            // non-optional index signatures over a finite key type require every key
            for (kt, optional, _) in &o.index {
                if !*optional {
                    if let Some(keys) = finite_keys(env, kt)? {
                        for k in keys {
                            if !m.contains_key(&k) {
                                return Ok(false);
                            }
                        }
                    }
                }
            }
            true
        }
        (Ty::Union(_) | Ty::Inter(_) | Ty::Ref(..), _) => return unsup("non-normalised arm"),
        _ => false,
    })
}

/// `Some(keys)` if the key type is a finite union of string literals.
fn finite_keys(env: &Env, kt: &Ty) -> R<Option<Vec<String>>> {
    let mut out = vec![];
    for a in arms(env, kt)? {
        match a {
            Ty::Lit(l) => out.push(l),
            _ => return Ok(None),
        }
    }
    Ok(Some(out))
}

// ------------------------------------------------------------------------------------------------
// Witness enumeration
// ------------------------------------------------------------------------------------------------

#[derive(Debug, Clone)]
pub struct WitnessCfg {
    pub strings: Vec<String>,
    pub numbers: Vec<Value>,
    pub bigints: Vec<Value>,
    pub max_array: usize,
    /// maximum number of reference unfoldings along one path
    pub depth: usize,
    /// objects/tuples: full product up to this many combinations, else one-factor-at-a-time
    pub product_cap: usize,
    /// number of optional properties up to which every subset is enumerated
    pub max_optional_subsets: usize,
}

impl Default for WitnessCfg {
    fn default() -> Self {
        WitnessCfg {
            strings: vec!["".into(), "a".into()],
            numbers: vec![Value::from(1), Value::from(2)],
            bigints: vec![Value::from(1), Value::from(2)],
            max_array: 2,
            depth: 4,
            product_cap: 256,
            max_optional_subsets: 4,
        }
    }
}

#[derive(Debug, Default, Clone)]
pub struct WitnessStats {
    pub capped_products: usize,
}

pub fn witnesses(env: &Env, t: &Ty, cfg: &WitnessCfg, st: &mut WitnessStats) -> R<Vec<Value>> {
    let mut v = wit(env, t, cfg, cfg.depth, st)?;
    dedup(&mut v);
    Ok(v)
}

fn dedup(v: &mut Vec<Value>) {
    let mut seen = BTreeSet::new();
    v.retain(|x| seen.insert(x.to_string()));
}

/// Combine per-slot choices. Full product when small, otherwise each slot varies alone around the
/// first choice of the others.
fn combine<T: Clone>(slots: &[Vec<T>], cap: usize, st: &mut WitnessStats) -> Vec<Vec<T>> {
    if slots.iter().any(|s| s.is_empty()) {
        return vec![];
    }
    let total: usize = slots
        .iter()
        .fold(1usize, |acc, s| acc.saturating_mul(s.len()));
    if total <= cap {
        let mut out: Vec<Vec<T>> = vec![vec![]];
        for s in slots {
            let mut next = Vec::with_capacity(out.len() * s.len());
            for pre in &out {
                for c in s {
                    let mut p = pre.clone();
                    p.push(c.clone());
                    next.push(p);
                }
            }
            out = next;
        }
        out
    } else {
        st.capped_products += 1;
        let base: Vec<T> = slots.iter().map(|s| s[0].clone()).collect();
        let mut out = vec![base.clone()];
        for (i, s) in slots.iter().enumerate() {
            for c in s.iter().skip(1) {
                let mut p = base.clone();
                p[i] = c.clone();
                out.push(p);
            }
        }
        // and the "all last" corner
        out.push(slots.iter().map(|s| s[s.len() - 1].clone()).collect());
        out
    }
}

fn key_witnesses(env: &Env, kt: &Ty) -> R<Vec<String>> {
    let mut out = vec![];
    for a in arms(env, kt)? {
        match a {
            Ty::String => out.push("a".to_string()),
            Ty::Lit(l) => out.push(l),
            Ty::Number | Ty::BigInt => out.push("1".to_string()),
            Ty::Boolean => out.push("true".to_string()),
            other => return unsup(format!("map key type {other:?}")),
        }
    }
    Ok(out)
}

fn wit(env: &Env, t: &Ty, cfg: &WitnessCfg, depth: usize, st: &mut WitnessStats) -> R<Vec<Value>> {
    // unfold references one level at a time so that the depth budget is respected
    let top: Vec<Ty> = match t {
        Ty::Ref(n, a) => {
            if depth == 0 {
                return Ok(vec![]);
            }
            return wit(env, &instantiate(env, n, a)?, cfg, depth - 1, st);
        }
        Ty::Union(v) => {
            let mut out = vec![];
            for x in v {
                out.extend(wit(env, x, cfg, depth, st)?);
            }
            dedup(&mut out);
            return Ok(out);
        }
        Ty::Inter(_) => {
            if depth == 0 {
                return Ok(vec![]);
            }
            let a = arms(env, t)?;
            let mut out = vec![];
            for x in &a {
                out.extend(wit(env, x, cfg, depth - 1, st)?);
            }
            dedup(&mut out);
            return Ok(out);
        }
        other => vec![other.clone()],
    };
    let arm = &top[0];
    Ok(match arm {
        Ty::Number => cfg.numbers.clone(),
        Ty::BigInt => cfg.bigints.clone(),
        Ty::String => cfg.strings.iter().cloned().map(Value::String).collect(),
        Ty::Boolean => vec![Value::Bool(false), Value::Bool(true)],
        Ty::Null => vec![Value::Null],
        Ty::Never => vec![],
        Ty::Lit(l) => vec![Value::String(l.clone())],
        Ty::Array(e) => {
            let ws = wit(env, e, cfg, depth, st)?;
            let mut out = vec![Value::Array(vec![])];
            if cfg.max_array >= 1 {
                for w in &ws {
                    out.push(Value::Array(vec![w.clone()]));
                }
            }
            if cfg.max_array >= 2 && !ws.is_empty() {
                // length 2: first+each, (not the square — recorded as a bound)
                for w in &ws {
                    out.push(Value::Array(vec![ws[0].clone(), w.clone()]));
                }
            }
            out
        }
        Ty::Tuple(ts) => {
            let mut slots = vec![];
            for t in ts {
                slots.push(wit(env, t, cfg, depth, st)?);
            }
            combine(&slots, cfg.product_cap, st)
                .into_iter()
                .map(Value::Array)
                .collect()
        }
        Ty::Object(o) => {
            // each slot: Option<Value> (None = absent)
            let n_opt = o.props.iter().filter(|p| p.optional).count();
            let mut slots: Vec<Vec<Option<Value>>> = vec![];
            for p in &o.props {
                let mut s: Vec<Option<Value>> = wit(env, &p.ty, cfg, depth, st)?
                    .into_iter()
                    .map(Some)
                    .collect();
                if p.optional {
                    s.insert(0, None);
                }
                slots.push(s);
            }
            let cap = if n_opt <= cfg.max_optional_subsets {
                cfg.product_cap
            } else {
                0
            };
            let combos = if o.props.is_empty() {
                vec![vec![]]
            } else {
                combine(&slots, cap, st)
            };
            // index signatures: {} plus one single-key object per key witness and value witness
            let mut extra: Vec<Vec<(String, Value)>> = vec![vec![]];
            for (kt, optional, vt) in &o.index {
                let ks = key_witnesses(env, kt)?;
                let vs = wit(env, vt, cfg, depth, st)?;
                if *optional || finite_keys(env, kt)?.is_none() {
                    for k in &ks {
                        if o.props.iter().any(|p| &p.key == k) {
                            continue;
                        }
                        for v in &vs {
                            extra.push(vec![(k.clone(), v.clone())]);
                        }
                    }
                } else {
                    // required finite keys: all present
                    extra.clear();
                    for v in &vs {
                        extra.push(ks.iter().map(|k| (k.clone(), v.clone())).collect());
                    }
                }
            }
            let mut out = vec![];
            for c in &combos {
                for e in &extra {
                    let mut m = serde_json::Map::new();
                    for (p, x) in o.props.iter().zip(c) {
                        if let Some(x) = x {
                            m.insert(p.key.clone(), x.clone());
                        }
                    }
                    for (k, v) in e {
                        m.insert(k.clone(), v.clone());
                    }
                    out.push(Value::Object(m));
                }
            }
            out
        }
        Ty::Union(_) | Ty::Inter(_) | Ty::Ref(..) => unreachable!(),
    })
}

// ------------------------------------------------------------------------------------------------
// Equivalence with witness
// ------------------------------------------------------------------------------------------------

#[derive(Debug, Clone)]
pub struct Distinguisher {
    pub value: Value,
    pub in_left: bool,
    pub in_right: bool,
}

/// `Ok(None)`: no distinguishing value among all witnesses of either side (within `cfg`).
pub fn distinguish(
    env_a: &Env,
    a: &Ty,
    env_b: &Env,
    b: &Ty,
    cfg: &WitnessCfg,
) -> R<Option<Distinguisher>> {
    if a == b && env_a == env_b {
        return Ok(None);
    }
    let mut st = WitnessStats::default();
    for w in witnesses(env_a, a, cfg, &mut st)? {
        if !member(env_b, b, &w)? {
            return Ok(Some(Distinguisher {
                value: w,
                in_left: true,
                in_right: false,
            }));
        }
    }
    for w in witnesses(env_b, b, cfg, &mut st)? {
        if !member(env_a, a, &w)? {
            return Ok(Some(Distinguisher {
                value: w,
                in_left: false,
                in_right: true,
            }));
        }
    }
    Ok(None)
}

/// Number of witnesses both sides produce (vacuity guard for equivalence checks).
pub fn witness_count(env: &Env, t: &Ty, cfg: &WitnessCfg) -> R<usize> {
    let mut st = WitnessStats::default();
    Ok(witnesses(env, t, cfg, &mut st)?.len())
}

pub fn env_of(decls: impl IntoIterator<Item = Decl>) -> Env {
    decls.into_iter().map(|d| (d.name.clone(), d)).collect()
}

// ------------------------------------------------------------------------------------------------
// Near-miss mutants of a JSON value (C02)
// ------------------------------------------------------------------------------------------------

/// One-step structural mutants of `v`: drop a property, null a property, grow/shrink arrays,
/// replace a string by one of `alts`.
pub fn mutants(v: &Value, alts: &[String]) -> Vec<Value> {
    mutants2(v, alts, alts)
}

/// Like `mutants`, with separate replacement alphabets for property keys and for string values.
pub fn mutants2(v: &Value, key_alts: &[String], string_alts: &[String]) -> Vec<Value> {
    let mut out = vec![];
    mutants_rec(v, key_alts, string_alts, &mut |m| out.push(m));
    dedup(&mut out);
    out.retain(|m| m != v);
    out
}

fn mutants_rec(v: &Value, alts: &[String], salts: &[String], emit: &mut dyn FnMut(Value)) {
    match v {
        Value::Object(m) => {
            for k in m.keys() {
                let mut c = m.clone();
                c.remove(k);
                emit(Value::Object(c));
                let mut c = m.clone();
                c.insert(k.clone(), Value::Null);
                emit(Value::Object(c));
                // rename key
                for a in alts {
                    if !m.contains_key(a) {
                        let mut c = m.clone();
                        let x = c.remove(k).unwrap();
                        c.insert(a.clone(), x);
                        emit(Value::Object(c));
                    }
                }
            }
            for (k, x) in m {
                let mut sub = vec![];
                mutants_rec(x, alts, salts, &mut |mm| sub.push(mm));
                for s in sub {
                    let mut c = m.clone();
                    c.insert(k.clone(), s);
                    emit(Value::Object(c));
                }
            }
        }
        Value::Array(xs) => {
            if !xs.is_empty() {
                let mut c = xs.clone();
                c.pop();
                emit(Value::Array(c));
                let mut c = xs.clone();
                c.push(xs[xs.len() - 1].clone());
                emit(Value::Array(c));
            } else {
                emit(Value::Array(vec![Value::Null]));
            }
            for (i, x) in xs.iter().enumerate() {
                let mut sub = vec![];
                mutants_rec(x, alts, salts, &mut |mm| sub.push(mm));
                for s in sub {
                    let mut c = xs.clone();
                    c[i] = s;
                    emit(Value::Array(c));
                }
            }
        }
        Value::String(s) => {
            for a in salts {
                if a != s {
                    emit(Value::String(a.clone()));
                }
            }
            emit(Value::Null);
        }
        Value::Null => {
            emit(Value::Object(Default::default()));
            emit(Value::Array(vec![]));
        }
        Value::Number(_) | Value::Bool(_) => {
            emit(Value::Null);
        }
    }
}

/// All string literals and property keys mentioned in a type (following references once).
pub fn literals_of(env: &Env, t: &Ty, out: &mut BTreeSet<String>, depth: usize) {
    match t {
        Ty::Lit(l) => {
            out.insert(l.clone());
        }
        Ty::Array(e) => literals_of(env, e, out, depth),
        Ty::Tuple(v) | Ty::Union(v) | Ty::Inter(v) => {
            for x in v {
                literals_of(env, x, out, depth)
            }
        }
        Ty::Object(o) => {
            for p in &o.props {
                out.insert(p.key.clone());
                literals_of(env, &p.ty, out, depth);
            }
            for (k, _, v) in &o.index {
                literals_of(env, k, out, depth);
                literals_of(env, v, out, depth);
            }
        }
        Ty::Ref(n, a) => {
            for x in a {
                literals_of(env, x, out, depth);
            }
            if depth > 0 {
                if let Ok(b) = instantiate(env, n, a) {
                    literals_of(env, &b, out, depth - 1);
                }
            }
        }
        _ => {}
    }
}

#[cfg(test)]
mod tests;
