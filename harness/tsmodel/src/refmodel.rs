//! Boring reference model of what a file shared by several types must contain.
//!
//! Inputs are the *single-type* outputs (`export_to_string()`) of each member; the model knows
//! nothing about merging, registries, truncation or path spellings.

use std::collections::{BTreeMap, BTreeSet};

#[derive(Debug, Clone, PartialEq, Eq)]
pub struct Single {
    pub ident: String,
    pub note: String,
    /// (specifier, names)
    pub imports: Vec<(String, Vec<String>)>,
    /// declaration block: doc comment (if any) + `export type …;` without surrounding blank lines
    pub block: String,
}

/// Split a single-type output into note / import lines / block.
pub fn split_single(ident: &str, text: &str) -> Result<Single, String> {
    let (note, rest) = match text.find('\n') {
        Some(i) => text.split_at(i + 1),
        None => return Err("no first line".into()),
    };
    let mut imports = vec![];
    let mut rest = rest;
    loop {
        let (line, tail) = match rest.find('\n') {
            Some(i) => (&rest[..i], &rest[i + 1..]),
            None => return Err("header not terminated by an empty line".into()),
        };
        if line.is_empty() {
            rest = tail;
            break;
        }
        let inner = line
            .strip_prefix("import type { ")
            .ok_or_else(|| format!("unexpected header line {line:?}"))?;
        let (names, from) = inner
            .split_once(" } from \"")
            .ok_or_else(|| format!("unexpected import line {line:?}"))?;
        let spec = from
            .strip_suffix("\";")
            .ok_or_else(|| format!("unexpected import line end {line:?}"))?;
        imports.push((
            spec.to_owned(),
            names.split(", ").map(|s| s.to_owned()).collect(),
        ));
        rest = tail;
    }
    let block = rest
        .strip_suffix('\n')
        .ok_or("text does not end with a newline")?
        .to_owned();
    Ok(Single {
        ident: ident.to_owned(),
        note: note.to_owned(),
        imports,
        block,
    })
}

/// The expected contents of a file holding exactly `members`.
pub fn expected_file(members: &[Single]) -> String {
    assert!(!members.is_empty());
    let mut by_ident: BTreeMap<&str, &Single> = BTreeMap::new();
    for m in members {
        by_ident.insert(&m.ident, m);
    }
    let declared: BTreeSet<&str> = by_ident.keys().copied().collect();
    let mut imports: BTreeMap<&str, BTreeSet<&str>> = BTreeMap::new();
    for m in by_ident.values() {
        for (spec, names) in &m.imports {
            for n in names {
                imports.entry(spec).or_default().insert(n);
            }
        }
    }
    let _ = declared;
    let mut out = String::new();
    out.push_str(&members[0].note);
    for (spec, names) in imports {
        out.push_str("import type { ");
        out.push_str(&names.into_iter().collect::<Vec<_>>().join(", "));
        out.push_str(" } from \"");
        out.push_str(spec);
        out.push_str("\";\n");
    }
    for m in by_ident.values() {
        out.push('\n');
        out.push_str(&m.block);
        out.push('\n');
    }
    out
}
