// E1 — in-process harness for the derive macro. `include!`d into `macros/src/lib.rs` as the child
// module `verif` of the crate root (hook H1), so it can call the crate's private functions.
//
// Entry: the `#[test] fn verif_main()` below, driven by environment variables:
//   TSRS_E1_MODE   inflect | total | equiv | docs
//   TSRS_E1_SLICE  i/n
//   TSRS_E1_OUT    file to write the JSON report to
//   TSRS_E1_TIER   quick | thorough

use std::collections::{BTreeMap, BTreeSet};
use std::fmt::Write as _;
use std::panic::{catch_unwind, AssertUnwindSafe};

mod serde_case {
    #![allow(dead_code)]
    include!(env!("TSRS_SERDE_CASE_RS"));
}

// ---- tiny JSON writer (the proc-macro crate has no serde_json) ---------------------------------

fn jstr(s: &str) -> String {
    let mut o = String::with_capacity(s.len() + 2);
    o.push('"');
    for c in s.chars() {
        match c {
            '"' => o.push_str("\\\""),
            '\\' => o.push_str("\\\\"),
            '\n' => o.push_str("\\n"),
            '\r' => o.push_str("\\r"),
            '\t' => o.push_str("\\t"),
            c if (c as u32) < 0x20 => {
                let _ = write!(o, "\\u{:04x}", c as u32);
            }
            c => o.push(c),
        }
    }
    o.push('"');
    o
}

fn jobj(fields: &[(&str, String)]) -> String {
    let mut o = String::from("{");
    for (i, (k, v)) in fields.iter().enumerate() {
        if i > 0 {
            o.push(',');
        }
        o.push_str(&jstr(k));
        o.push(':');
        o.push_str(v);
    }
    o.push('}');
    o
}

fn jarr(items: &[String]) -> String {
    format!("[{}]", items.join(","))
}

#[derive(Default)]
struct Report {
    evaluations: u64,
    counters: BTreeMap<String, u64>,
    // class json -> (count, examples)
    violations: BTreeMap<String, (u64, Vec<String>)>,
    samples: Vec<String>,
    distinct: BTreeSet<u64>,
    machinery_errors: Vec<String>,
}

impl Report {
    fn count(&mut self, k: &str, n: u64) {
        *self.counters.entry(k.to_string()).or_default() += n;
    }
    fn violation(&mut self, class: String, detail: String) {
        let e = self.violations.entry(class).or_insert((0, vec![]));
        e.0 += 1;
        if e.1.len() < 3 {
            e.1.push(detail);
        }
    }
    fn sample(&mut self, s: String) {
        if self.samples.len() < 6 {
            self.samples.push(s);
        }
    }
    fn distinct(&mut self, s: &str) {
        use std::hash::{Hash, Hasher};
        let mut h = std::collections::hash_map::DefaultHasher::new();
        s.hash(&mut h);
        self.distinct.insert(h.finish());
    }
    fn write(&self, mode: &str) {
        let viol: Vec<String> = self
            .violations
            .iter()
            .map(|(c, (n, ex))| {
                jobj(&[
                    ("class", c.clone()),
                    ("count", n.to_string()),
                    ("examples", jarr(ex)),
                ])
            })
            .collect();
        let counters: Vec<(String, String)> = self
            .counters
            .iter()
            .map(|(k, v)| (k.clone(), v.to_string()))
            .collect();
        let counters_ref: Vec<(&str, String)> =
            counters.iter().map(|(k, v)| (k.as_str(), v.clone())).collect();
        let out = jobj(&[
            ("mode", jstr(mode)),
            ("evaluations", self.evaluations.to_string()),
            ("states", "0".into()),
            ("transitions", "0".into()),
            ("counters", jobj(&counters_ref)),
            ("violations", jarr(&viol)),
            ("samples", jarr(&self.samples)),
            (
                "distinct_hashes",
                jarr(&self
                    .distinct
                    .iter()
                    .map(|h| jstr(&format!("{h:016x}")))
                    .collect::<Vec<_>>()),
            ),
            (
                "machinery_errors",
                jarr(&self.machinery_errors.iter().map(|e| jstr(e)).collect::<Vec<_>>()),
            ),
        ]);
        let path = std::env::var("TSRS_E1_OUT").expect("TSRS_E1_OUT");
        std::fs::write(path, out).expect("write report");
    }
}

// ---- running the derive --------------------------------------------------------------------------

#[derive(Debug, Clone, PartialEq)]
enum Obs {
    Ok(String),
    Err(String),
    Panic(String),
    /// the input is not a syntactically valid item (generator bug, not a verdict)
    NotAnItem(String),
}

fn derive_src(src: &str) -> Obs {
    let item: syn::Item = match syn::parse_str(src) {
        Ok(i) => i,
        Err(e) => return Obs::NotAnItem(e.to_string()),
    };
    derive_item(item)
}

fn derive_item(item: syn::Item) -> Obs {
    let r = catch_unwind(AssertUnwindSafe(|| match item {
        syn::Item::Struct(s) => crate::types::struct_def(&s)
            .map(|d| d.into_impl(s.ident.clone(), s.generics.clone()).to_string()),
        syn::Item::Enum(e) => crate::types::enum_def(&e)
            .map(|d| d.into_impl(e.ident.clone(), e.generics.clone()).to_string()),
        _ => Err(syn::Error::new(proc_macro2::Span::call_site(), "unsupported item")),
    }));
    match r {
        Ok(Ok(s)) => Obs::Ok(s),
        Ok(Err(e)) => Obs::Err(e.to_string()),
        Err(p) => Obs::Panic(
            p.downcast_ref::<String>()
                .cloned()
                .or_else(|| p.downcast_ref::<&str>().map(|s| s.to_string()))
                .unwrap_or_else(|| "<non-string panic>".into()),
        ),
    }
}

fn slice() -> (usize, usize) {
    let s = std::env::var("TSRS_E1_SLICE").unwrap_or_else(|_| "0/1".into());
    let (a, b) = s.split_once('/').unwrap();
    (a.parse().unwrap(), b.parse().unwrap())
}

fn thorough() -> bool {
    std::env::var("TSRS_E1_TIER").map_or(false, |t| t == "thorough")
}

#[test]
fn verif_main() {
    std::panic::set_hook(Box::new(|_| {}));
    let mode = std::env::var("TSRS_E1_MODE").expect("TSRS_E1_MODE");
    let mut rep = Report::default();
    match mode.as_str() {
        "inflect" => inflect(&mut rep),
        "total" => total(&mut rep),
        "equiv" => equiv(&mut rep),
        "docs" => docs(&mut rep),
        "one" => {
            let src = std::env::var("TSRS_E1_SRC").expect("TSRS_E1_SRC");
            println!("{:?}", derive_src(&src));
            return;
        }
        other => panic!("unknown mode {other}"),
    }
    rep.write(&mode);
}

// =================================================================================================
// C09 — rename_all vs serde's own case conversion
// =================================================================================================

const RULES: &[(&str, crate::attr::Inflection, serde_case::RenameRule)] = &[
    ("lowercase", crate::attr::Inflection::Lower, serde_case::RenameRule::LowerCase),
    ("UPPERCASE", crate::attr::Inflection::Upper, serde_case::RenameRule::UpperCase),
    ("camelCase", crate::attr::Inflection::Camel, serde_case::RenameRule::CamelCase),
    ("snake_case", crate::attr::Inflection::Snake, serde_case::RenameRule::SnakeCase),
    ("PascalCase", crate::attr::Inflection::Pascal, serde_case::RenameRule::PascalCase),
    (
        "SCREAMING_SNAKE_CASE",
        crate::attr::Inflection::ScreamingSnake,
        serde_case::RenameRule::ScreamingSnakeCase,
    ),
    ("kebab-case", crate::attr::Inflection::Kebab, serde_case::RenameRule::KebabCase),
    (
        "SCREAMING-KEBAB-CASE",
        crate::attr::Inflection::ScreamingKebab,
        serde_case::RenameRule::ScreamingKebabCase,
    ),
];

const RAW_KEYWORDS: &[&str] = &[
    "as", "async", "await", "break", "const", "continue", "dyn", "else", "enum", "extern", "false",
    "fn", "for", "if", "impl", "in", "let", "loop", "match", "mod", "move", "mut", "pub", "ref",
    "return", "static", "struct", "trait", "true", "type", "unsafe", "use", "where", "while",
    "abstract", "become", "box", "do", "final", "macro", "override", "priv", "try", "typeof",
    "unsized", "virtual", "yield",
];

fn caught<T>(f: impl FnOnce() -> T) -> Result<T, String> {
    catch_unwind(AssertUnwindSafe(f)).map_err(|p| {
        p.downcast_ref::<String>()
            .cloned()
            .or_else(|| p.downcast_ref::<&str>().map(|s| s.to_string()))
            .unwrap_or_else(|| "<panic>".into())
    })
}

fn conventional(ident: &str, field: bool) -> bool {
    let b = ident.as_bytes();
    if ident.is_empty() || !ident.is_ascii() {
        return false;
    }
    if field {
        // snake_case: lower/digit runs separated by single underscores
        b[0].is_ascii_lowercase()
            && !ident.contains("__")
            && !ident.ends_with('_')
            && b.iter().all(|c| c.is_ascii_lowercase() || c.is_ascii_digit() || *c == b'_')
    } else {
        b[0].is_ascii_uppercase() && b.iter().all(|c| c.is_ascii_alphanumeric())
    }
}

fn inflect(rep: &mut Report) {
    let (si, sn) = slice();
    let alphabet: &[&str] = &["a", "b", "B", "C", "1", "_", "é", "É", "ß"];
    let max_len = if thorough() { 7 } else { 6 };
    // enumerate all strings over the alphabet by counting in base |alphabet|
    let mut idents: Vec<String> = vec![];
    let mut frontier: Vec<String> = vec![String::new()];
    let mut n_strings = 0u64;
    for _ in 0..max_len {
        let mut next = Vec::with_capacity(frontier.len() * alphabet.len());
        for f in &frontier {
            for a in alphabet {
                let mut s = f.clone();
                s.push_str(a);
                next.push(s);
            }
        }
        for s in &next {
            n_strings += 1;
            if (n_strings as usize) % sn != si {
                continue;
            }
            // what the compiler accepts as an identifier
            if s != "_" && syn::parse_str::<syn::Ident>(s).is_ok() {
                idents.push(s.clone());
            }
        }
        frontier = next;
    }
    if si == 0 {
        for k in RAW_KEYWORDS {
            let raw = format!("r#{k}");
            if syn::parse_str::<syn::Ident>(&raw).is_ok() {
                idents.push(raw);
            }
        }
        for extra in ["foo_bar", "fooBar", "FooBar", "Foo_Bar", "HTTPServer", "x_y_z", "X", "x1y2"] {
            idents.push(extra.to_string());
        }
    }
    rep.count("strings_enumerated", n_strings / sn as u64);
    rep.count("identifiers", idents.len() as u64);
    for ident_s in &idents {
        let ident: syn::Ident = syn::parse_str(ident_s).unwrap();
        // exactly what format_field / format_variant feed into Inflection::apply
        let field_name = crate::utils::to_ts_ident(&ident);
        let variant_name = {
            use syn::ext::IdentExt;
            ident.unraw().to_string()
        };
        // what serde_derive feeds into its rename rules
        let serde_name = ident_s.trim_start_matches("r#").to_string();
        rep.distinct(ident_s);
        for (rule_name, ts_rule, serde_rule) in RULES {
            for field in [true, false] {
                rep.evaluations += 1;
                let input = if field { &field_name } else { &variant_name };
                let serde = caught(|| {
                    if field {
                        serde_rule.apply_to_field(&serde_name)
                    } else {
                        serde_rule.apply_to_variant(&serde_name)
                    }
                });
                let ts = caught(|| {
                    if field {
                        ts_rule.apply_to_field(input)
                    } else {
                        ts_rule.apply_to_variant(input)
                    }
                });
                let pos = if field { "field" } else { "variant" };
                let class = |check: &str| {
                    jobj(&[
                        ("check", jstr(check)),
                        ("rule", jstr(rule_name)),
                        ("position", jstr(pos)),
                        ("conventional_identifier", conventional(&serde_name, field).to_string()),
                    ])
                };
                match (&ts, &serde) {
                    (_, Err(_)) => rep.count("serde_undefined(serde_derive itself panics)", 1),
                    (Err(p), Ok(s)) => rep.violation(
                        class("rename-panics"),
                        jobj(&[("ident", jstr(ident_s)), ("serde", jstr(s)), ("panic", jstr(p))]),
                    ),
                    (Ok(t), Ok(s)) if t != s => rep.violation(
                        class("rename-differs-from-serde"),
                        jobj(&[("ident", jstr(ident_s)), ("ts_rs", jstr(t)), ("serde", jstr(s))]),
                    ),
                    (Ok(t), Ok(_)) => {
                        rep.count("equal", 1);
                        if rep.samples.len() < 6 && rep.evaluations % 9973 == 0 {
                            rep.sample(jobj(&[
                                ("ident", jstr(ident_s)),
                                ("rule", jstr(rule_name)),
                                ("position", jstr(pos)),
                                ("both", jstr(t)),
                            ]));
                        }
                    }
                }
            }
        }
    }
    // precedence: a struct variant's own rename_all wins over the enum's rename_all_fields (serde's
    // rule); the enum's rename_all names the variants and never their fields
    if si == 0 {
        for (x_name, _, x_rule) in RULES {
            for (y_name, _, y_rule) in RULES {
                let src = format!(
                    "#[ts(rename_all_fields = \"{x_name}\", rename_all = \"{y_name}\")] enum E {{ #[ts(rename_all = \"{y_name}\")] OwnRule {{ multi_word_field: i32 }}, EnumRule {{ other_long_name: i32 }} }}"
                );
                rep.evaluations += 1;
                let exp = [
                    ("field", y_rule.apply_to_field("multi_word_field")),
                    ("field", x_rule.apply_to_field("other_long_name")),
                    ("variant", y_rule.apply_to_variant("OwnRule")),
                    ("variant", y_rule.apply_to_variant("EnumRule")),
                ];
                match derive_src(&src) {
                    Obs::Ok(tokens) => {
                        for (pos, name) in exp {
                            let shown = if pos == "field" { crate::utils::raw_name_to_ts_field(name.clone()) } else { name.clone() };
                            let lit = proc_macro2::Literal::string(&shown).to_string();
                            if !tokens.contains(&lit) {
                                rep.violation(
                                    jobj(&[
                                        ("check", jstr("rename-precedence-differs-from-serde")),
                                        ("rule", jstr(&format!("fields:{x_name}/variant:{y_name}"))),
                                        ("position", jstr(pos)),
                                        ("conventional_identifier", "true".into()),
                                    ]),
                                    jobj(&[("src", jstr(&src)), ("expected_name", jstr(&name))]),
                                );
                            }
                        }
                        rep.count("precedence_cases", 1);
                    }
                    other => rep.violation(
                        jobj(&[("check", jstr("derive-fails")), ("rule", jstr(x_name))]),
                        jobj(&[("src", jstr(&src)), ("obs", jstr(&format!("{other:?}").chars().take(300).collect::<String>()))]),
                    ),
                }
            }
        }
    }
    // end-to-end: the name really lands in the expansion (one derive per rule for a few identifiers)
    if si == 0 {
        for ident_s in ["foo_bar", "fooBar", "Foo_Bar", "a1_b", "r#type", "_x", "x_"] {
            for (rule_name, _, serde_rule) in RULES {
                let name = ident_s.trim_start_matches("r#");
                if let Ok(expected) = caught(|| serde_rule.apply_to_field(name)) {
                    let src = format!("#[ts(rename_all = \"{rule_name}\")] struct S {{ {ident_s}: i32 }}");
                    rep.evaluations += 1;
                    match derive_src(&src) {
                        Obs::Ok(tokens) => {
                            let quoted = crate::utils::raw_name_to_ts_field(expected.clone());
                            let lit = proc_macro2::Literal::string(&quoted).to_string();
                            if !tokens.contains(&lit) {
                                rep.violation(
                                    jobj(&[
                                        ("check", jstr("expansion-lacks-serde-name")),
                                        ("rule", jstr(rule_name)),
                                        ("position", jstr("field")),
                                        ("conventional_identifier", conventional(name, true).to_string()),
                                    ]),
                                    jobj(&[("src", jstr(&src)), ("expected_name", jstr(&expected))]),
                                );
                            }
                        }
                        other => rep.violation(
                            jobj(&[("check", jstr("derive-fails")), ("rule", jstr(rule_name))]),
                            jobj(&[("src", jstr(&src)), ("obs", jstr(&format!("{other:?}")))]),
                        ),
                    }
                }
                if let Ok(expected) = caught(|| serde_rule.apply_to_variant(name)) {
                    let src = format!("#[ts(rename_all = \"{rule_name}\")] enum E {{ {ident_s} }}");
                    rep.evaluations += 1;
                    match derive_src(&src) {
                        Obs::Ok(tokens) => {
                            let lit = proc_macro2::Literal::string(&expected).to_string();
                            if !tokens.contains(&lit) {
                                rep.violation(
                                    jobj(&[
                                        ("check", jstr("expansion-lacks-serde-name")),
                                        ("rule", jstr(rule_name)),
                                        ("position", jstr("variant")),
                                        ("conventional_identifier", conventional(name, false).to_string()),
                                    ]),
                                    jobj(&[("src", jstr(&src)), ("expected_name", jstr(&expected))]),
                                );
                            }
                        }
                        other => rep.violation(
                            jobj(&[("check", jstr("derive-fails")), ("rule", jstr(rule_name))]),
                            jobj(&[("src", jstr(&src)), ("obs", jstr(&format!("{other:?}")))]),
                        ),
                    }
                }
            }
        }
    }
    // every code path that computes a property name: the field attributes that take their own branch
    // in format_field (type override, `as`, inline, optional, default) x the three places a field rule
    // can come from (struct rename_all, variant rename_all, enum rename_all_fields)
    if si == 0 {
        let field_attrs: &[(&str, &str, &str)] = &[
            ("plain", "", "i32"),
            ("type-override", "#[ts(type = \"string\")] ", "i32"),
            ("as", "#[ts(as = \"String\")] ", "i32"),
            ("inline", "#[ts(inline)] ", "Vec<i32>"),
            ("optional", "#[ts(optional)] ", "Option<i32>"),
            ("optional-nullable", "#[ts(optional = nullable)] ", "Option<i32>"),
        ];
        for ident_s in ["foo_bar", "fooBar", "r#type", "x_"] {
            let name = ident_s.trim_start_matches("r#");
            for (rule_name, _, serde_rule) in RULES {
                let expected = match caught(|| serde_rule.apply_to_field(name)) {
                    Ok(e) => e,
                    Err(_) => continue,
                };
                for (attr_name, attr, ty) in field_attrs {
                    let contexts = [
                        ("struct-rename_all", format!("#[ts(rename_all = \"{rule_name}\")] struct S {{ other: bool, {attr}{ident_s}: {ty} }}")),
                        ("variant-rename_all", format!("enum E {{ #[ts(rename_all = \"{rule_name}\")] V {{ other: bool, {attr}{ident_s}: {ty} }}, W }}")),
                        ("enum-rename_all_fields", format!("#[ts(rename_all_fields = \"{rule_name}\")] enum E {{ V {{ other: bool, {attr}{ident_s}: {ty} }}, W }}")),
                        ("tagged-enum-rename_all_fields", format!("#[ts(tag = \"t\", rename_all_fields = \"{rule_name}\")] enum E {{ V {{ {attr}{ident_s}: {ty} }}, W }}")),
                        ("untagged-variant-rename_all_fields", format!("#[ts(rename_all_fields = \"{rule_name}\")] enum E {{ W, #[ts(untagged)] V {{ other: bool, {attr}{ident_s}: {ty} }} }}")),
                        ("untagged-variant-of-tagged-enum-rename_all_fields", format!("#[ts(tag = \"t\", rename_all_fields = \"{rule_name}\")] enum E {{ W, #[ts(untagged)] V {{ other: bool, {attr}{ident_s}: {ty} }} }}")),
                        ("skipped-sibling-variant-rename_all", format!("enum E {{ #[ts(skip)] W, #[ts(rename_all = \"{rule_name}\")] V {{ other: bool, {attr}{ident_s}: {ty} }} }}")),
                    ];
                    for (ctx_name, src) in contexts {
                        rep.evaluations += 1;
                        match derive_src(&src) {
                            Obs::Ok(tokens) => {
                                let quoted = crate::utils::raw_name_to_ts_field(expected.clone());
                                let lit = proc_macro2::Literal::string(&quoted).to_string();
                                // the name is followed by `:` or `?:` inside a format string; look for the
                                // quoted name or the bare name before a colon
                                let bare_ok = tokens.contains(&lit)
                                    || tokens.contains(&format!("{quoted}:"))
                                    || tokens.contains(&format!("{quoted}?:"))
                                    || tokens.contains(&format!("\"{quoted}\""));
                                if !bare_ok {
                                    rep.violation(
                                        jobj(&[
                                            ("check", jstr("expansion-lacks-serde-name")),
                                            ("rule", jstr(rule_name)),
                                            ("position", jstr(&format!("field/{ctx_name}/{attr_name}"))),
                                            ("conventional_identifier", conventional(name, true).to_string()),
                                        ]),
                                        jobj(&[("src", jstr(&src)), ("expected_name", jstr(&expected))]),
                                    );
                                }
                                rep.count("field_attribute_naming_cases", 1);
                            }
                            other => rep.violation(
                                jobj(&[("check", jstr("derive-fails")), ("rule", jstr(rule_name))]),
                                jobj(&[("src", jstr(&src)), ("obs", jstr(&format!("{other:?}").chars().take(300).collect::<String>()))]),
                            ),
                        }
                    }
                }
            }
        }
    }
}

// =================================================================================================
// Item grammar shared by C16 / C10
// =================================================================================================

/// An attribute option at some position: the text inside `#[ts(..)]` / `#[serde(..)]`.
#[derive(Clone, Debug)]
struct Opt {
    key: &'static str,
    text: &'static str,
    /// "valid" | "bad-value" | "no-value"
    form: &'static str,
}

const fn o(key: &'static str, text: &'static str, form: &'static str) -> Opt {
    Opt { key, text, form }
}

// keys the `ts` parser accepts on a struct container
const C_STRUCT: &[Opt] = &[
    o("crate", "crate = \"ts_rs\"", "valid"),
    o("as", "as = \"i32\"", "valid"),
    o("type", "type = \"string\"", "valid"),
    o("rename", "rename = \"Renamed\"", "valid"),
    o("rename_all", "rename_all = \"camelCase\"", "valid"),
    o("tag", "tag = \"kind\"", "valid"),
    o("export", "export", "valid"),
    o("export_to", "export_to = \"dir/\"", "valid"),
    o("concrete", "concrete(T = i32)", "valid"),
    o("bound", "bound = \"T: Clone\"", "valid"),
    o("bound", "bound = \"T: TS\"", "valid"),
    o("bound", "bound = \"T: TS, U: TS\"", "valid"),
    o("optional_fields", "optional_fields", "valid"),
    o("optional_fields", "optional_fields = nullable", "valid"),
    // invalid values / missing values
    o("as", "as = 3", "bad-value"),
    o("as", "as", "no-value"),
    o("as", "as = \"<<<\"", "bad-value"),
    o("type", "type = 3", "bad-value"),
    o("rename_all", "rename_all = \"Title Case\"", "bad-value"),
    o("rename_all", "rename_all", "no-value"),
    o("tag", "tag = true", "bad-value"),
    o("bound", "bound = \"T: \"", "bad-value"),
    o("bound", "bound = \"???\"", "bad-value"),
    o("concrete", "concrete = \"x\"", "bad-value"),
    o("concrete", "concrete(T)", "bad-value"),
    o("optional_fields", "optional_fields = maybe", "bad-value"),
    o("export_to", "export_to", "no-value"),
    // keys that do not exist at this position
    o("untagged", "untagged", "valid"),
    o("content", "content = \"c\"", "valid"),
    o("rename_all_fields", "rename_all_fields = \"camelCase\"", "valid"),
    o("inline", "inline", "valid"),
    o("skip", "skip", "valid"),
    o("flatten", "flatten", "valid"),
    o("optional", "optional", "valid"),
    o("bogus", "bogus", "valid"),
    o("bogus", "bogus = \"x\"", "valid"),
];

const STRUCT_KEYS: &[&str] = &[
    "crate", "as", "type", "rename", "rename_all", "tag", "export", "export_to", "concrete", "bound",
    "optional_fields",
];
const ENUM_KEYS: &[&str] = &[
    "crate", "as", "type", "rename", "rename_all", "rename_all_fields", "export_to", "export", "tag",
    "content", "untagged", "concrete", "bound",
];
const VARIANT_KEYS: &[&str] = &["as", "type", "rename", "rename_all", "inline", "skip", "untagged"];
const FIELD_KEYS: &[&str] = &["as", "type", "rename", "inline", "skip", "optional", "flatten"];

const V_OPTS: &[Opt] = &[
    o("as", "as = \"i32\"", "valid"),
    o("type", "type = \"string\"", "valid"),
    o("rename", "rename = \"renamed\"", "valid"),
    o("rename_all", "rename_all = \"camelCase\"", "valid"),
    o("inline", "inline", "valid"),
    o("skip", "skip", "valid"),
    o("untagged", "untagged", "valid"),
    o("rename_all", "rename_all = \"nope\"", "bad-value"),
    o("as", "as = \"(\"", "bad-value"),
    o("skip", "skip = \"x\"", "bad-value"),
    o("tag", "tag = \"t\"", "valid"),
    o("flatten", "flatten", "valid"),
    o("optional", "optional", "valid"),
    o("bogus", "bogus", "valid"),
];

const F_OPTS: &[Opt] = &[
    o("as", "as = \"i32\"", "valid"),
    o("as", "as = \"Option<_>\"", "valid"),
    o("type", "type = \"string\"", "valid"),
    o("rename", "rename = \"renamed\"", "valid"),
    o("rename", "rename = \"with-dash\"", "valid"),
    o("inline", "inline", "valid"),
    o("skip", "skip", "valid"),
    o("optional", "optional", "valid"),
    o("optional", "optional = nullable", "valid"),
    o("flatten", "flatten", "valid"),
    o("rename", "rename = 5", "bad-value"),
    o("rename", "rename", "no-value"),
    o("optional", "optional = yes", "bad-value"),
    o("as", "as = \"\"", "bad-value"),
    o("type", "type", "no-value"),
    o("tag", "tag = \"t\"", "valid"),
    o("rename_all", "rename_all = \"camelCase\"", "valid"),
    o("untagged", "untagged", "valid"),
    o("bogus", "bogus", "valid"),
];

#[derive(Clone, Copy, Debug, PartialEq)]
enum Fields {
    Unit,
    Tuple0,
    Named0,
    Newtype,
    Tuple2,
    Named1,
    Named2,
}

const ALL_FIELDS: &[Fields] = &[
    Fields::Unit,
    Fields::Tuple0,
    Fields::Named0,
    Fields::Newtype,
    Fields::Tuple2,
    Fields::Named1,
    Fields::Named2,
];

impl Fields {
    fn named(self) -> bool {
        matches!(self, Fields::Named0 | Fields::Named1 | Fields::Named2)
    }
    fn has_field(self) -> bool {
        matches!(self, Fields::Newtype | Fields::Tuple2 | Fields::Named1 | Fields::Named2)
    }
    /// `fattr` is put on the first field; `ty` is the first field's type.
    fn render(self, fattr: &str, ty: &str, is_struct: bool) -> String {
        let semi = if is_struct { ";" } else { "" };
        match self {
            Fields::Unit => semi.to_string(),
            Fields::Tuple0 => format!("(){semi}"),
            Fields::Named0 => " {}".to_string(),
            Fields::Newtype => format!("({fattr} {ty}){semi}"),
            Fields::Tuple2 => format!("({fattr} {ty}, String){semi}"),
            Fields::Named1 => format!(" {{ {fattr} first_field: {ty} }}"),
            Fields::Named2 => format!(" {{ {fattr} first_field: {ty}, second_one: String }}"),
        }
    }
}

fn attr(spelling: &str, body: &str) -> String {
    if body.is_empty() {
        String::new()
    } else {
        format!("#[{spelling}({body})]")
    }
}

// =================================================================================================
// C16 — totality
// =================================================================================================

#[derive(Clone, Debug)]
struct Placed {
    pos: &'static str, // container | variant | field
    opt: Opt,
}

/// Expected outcome class for a set of *ts-spelled* options on an item; `None` = either outcome is
/// acceptable (only "no panic" is required).
fn expected_outcome(is_struct: bool, container_fields: Fields, variant_fields: Option<Fields>, placed: &[Placed]) -> Option<bool> {
    if placed.iter().any(|p| p.opt.form != "valid") {
        return None;
    }
    let has = |pos: &str, key: &str| placed.iter().any(|p| p.pos == pos && p.opt.key == key);
    let c = |k: &str| has("container", k);
    let v = |k: &str| has("variant", k);
    let f = |k: &str| has("field", k);
    // unknown keys are rejected wherever the attribute list is actually parsed
    let known = |p: &Placed| match p.pos {
        "container" => {
            if is_struct {
                STRUCT_KEYS.contains(&p.opt.key)
            } else {
                ENUM_KEYS.contains(&p.opt.key)
            }
        }
        "variant" => VARIANT_KEYS.contains(&p.opt.key),
        _ => FIELD_KEYS.contains(&p.opt.key),
    };
    if placed.iter().any(|p| p.pos == "container" && !known(p)) {
        return Some(false);
    }
    // --- container
    if c("type") && (c("as") || c("rename_all") || c("tag") || (is_struct && c("optional_fields"))) {
        return Some(false);
    }
    if !is_struct && c("type") && (c("rename_all_fields") || c("content") || c("untagged")) {
        return Some(false);
    }
    if c("as") && (c("tag") || c("rename_all") || (is_struct && c("optional_fields"))) {
        return Some(false);
    }
    if !is_struct && c("as") && (c("rename_all_fields") || c("content") || c("untagged")) {
        return Some(false);
    }
    if !is_struct {
        if c("untagged") && (c("tag") || c("content")) {
            return Some(false);
        }
        if c("content") && !c("tag") {
            return Some(false);
        }
    }
    if is_struct && !container_fields.named() && (c("tag") || c("rename_all") || c("optional_fields")) {
        return Some(false);
    }
    // `{}` is treated like a unit struct: `rename_all` is "not applicable"
    if is_struct && container_fields == Fields::Named0 && c("rename_all") && !c("tag") {
        return Some(false);
    }
    let container_overridden = c("type") || c("as");
    if container_overridden {
        // fields / variants are not looked at: the expansion must compile, nothing is diagnosed
        return Some(true);
    }
    if placed.iter().any(|p| p.pos == "variant" && !known(p)) {
        return Some(false);
    }
    // --- variant
    if let Some(vf) = variant_fields {
        if v("as") && (v("type") || v("rename_all")) {
            return Some(false);
        }
        if v("type") && (v("rename_all") || v("inline")) {
            return Some(false);
        }
        if v("rename_all") && !vf.named() {
            return Some(false);
        }
        if v("skip") {
            // a skipped variant's payload is not looked at
            return Some(true);
        }
        // an empty struct variant `V {}` is treated like a unit struct unless the enum is
        // internally tagged (then it carries the tag property)
        // (a per-variant `untagged` takes the tag property away again)
        let internally = c("tag") && !c("content") && !v("untagged");
        if vf == Fields::Named0 && (v("rename_all") || c("rename_all_fields")) && !internally {
            return Some(false);
        }
    }
    if placed.iter().any(|p| p.pos == "field" && !known(p)) {
        return Some(false);
    }
    // --- field (the item actually has the field, see generator)
    let on_tuple_field = match variant_fields {
        Some(vf) => !vf.named(),
        None => !container_fields.named(),
    };
    if f("type") && (f("as") || f("inline") || f("flatten") || f("optional")) {
        return Some(false);
    }
    if f("flatten") && (f("as") || f("rename") || f("inline") || f("optional")) {
        return Some(false);
    }
    if on_tuple_field && (f("flatten") || f("rename") || f("optional")) {
        return Some(false);
    }
    // struct-level `tag` on a variant's payload comes from the enum; nothing more to reject
    Some(true)
}

fn total(rep: &mut Report) {
    let (si, sn) = slice();
    let deep = thorough();
    let generics: &[(&str, &str, &str)] = &[
        // (params, where clause, first-field type)
        ("", "", "i32"),
        ("<T>", "", "T"),
        ("<T: Clone>", "", "Vec<T>"),
        ("<'a, T>", "", "&'a T"),
        ("<const N: usize>", "", "[i32; N]"),
        ("<T = i32>", "", "T"),
        ("<T, U>", "where T: Clone", "(T, U)"),
        ("<const N: usize = 4>", "", "[i32; N]"),
        ("<T, const N: usize = 2>", "", "[T; N]"),
        ("<'a, 'b: 'a, T: Clone + 'a>", "", "&'a std::borrow::Cow<'b, T>"),
    ];
    let idents: &[&str] = &["Item", "__", "_1", "é", "Ünï", "r#type", "r#fn"];
    let field_tys: &[&str] = &["i32", "Option<String>", "Vec<i32>", "Box<Item2>", "()"];
    let mut case_no = 0usize;

    let mut dump: Option<std::fs::File> = std::env::var("TSRS_E1_DUMP").ok().map(|p| {
        std::fs::File::create(format!("{p}.{si}")).expect("create dump file")
    });
    let mut run_case = |rep: &mut Report, src: String, is_struct: bool, cf: Fields, vf: Option<Fields>, placed: &[Placed], spelling: &str| {
        case_no += 1;
        if case_no % sn != si {
            return;
        }
        rep.evaluations += 1;
        let obs = derive_src(&src);
        let exp = if spelling == "ts" { expected_outcome(is_struct, cf, vf, placed) } else { None };
        let shape = format!("{}{:?}{}", if is_struct { "struct:" } else { "enum:" }, cf, vf.map_or(String::new(), |v| format!("/{v:?}")));
        let keys: Vec<String> = placed.iter().map(|p| format!("{}.{}[{}]", p.pos, p.opt.key, p.opt.form)).collect();
        rep.distinct(&format!("{shape}|{keys:?}|{spelling}"));
        let class = |check: &str| {
            jobj(&[
                ("check", jstr(check)),
                ("spelling", jstr(spelling)),
                ("keys", jarr(&keys.iter().map(|k| jstr(k)).collect::<Vec<_>>())),
            ])
        };
        match (&obs, exp) {
            (Obs::NotAnItem(e), _) => rep.machinery_errors.push(format!("generator produced a non-item: {src}: {e}")),
            (Obs::Panic(p), _) => rep.violation(class("derive-panics"), jobj(&[("src", jstr(&src)), ("panic", jstr(p))])),
            (Obs::Ok(_), Some(false)) => rep.violation(
                class("incompatible-or-inapplicable-attributes-accepted"),
                jobj(&[("src", jstr(&src)), ("shape", jstr(&shape))]),
            ),
            (Obs::Err(e), Some(true)) => rep.violation(
                class("valid-combination-rejected"),
                jobj(&[("src", jstr(&src)), ("shape", jstr(&shape)), ("error", jstr(e))]),
            ),
            (Obs::Ok(_), _) => {
                rep.count("expanded", 1);
                // hand accepted items to rustc (E2 `accepted` corpus): ts spelling only (a serde
                // attribute needs serde's derive), no `bound`/`concrete` naming an undeclared
                // parameter, no `optional` on a non-Option (designed IsOption diagnostic)
                if let Some(dump) = dump.as_mut() {
                    let max = if thorough() { 2 } else { 1 };
                    // `bound` replaces the generated bounds altogether (the user's responsibility):
                    // only the two spellings that give every type parameter of the item its `TS` bound
                    let names_param = |p: &Placed| matches!(p.opt.key, "concrete");
                    let two_params = src.contains("<T, U>");
                    let one_param = !two_params && (src.contains("<T>") || src.contains("<T:") || src.contains(", T>") || src.contains("<T ="));
                    if placed.iter().any(|p| {
                        p.opt.key == "bound"
                            && !((p.opt.text == "bound = \"T: TS\"" && one_param) || (p.opt.text == "bound = \"T: TS, U: TS\"" && two_params))
                    }) {
                        return;
                    }
                    let generic_t = src.contains("<T") || src.contains(", T");
                    // `optional` on a non-Option field is the designed IsOption diagnostic;
                    // `optional_fields` simply leaves such fields alone
                    let optional_ok = !placed.iter().any(|p| p.opt.key == "optional") || src.contains("Option<");
                    if spelling == "ts"
                        && placed.len() <= max
                        && (placed.len() <= 1 || placed.iter().all(|p| p.opt.form == "valid"))
                        && (generic_t || !placed.iter().any(names_param))
                        && optional_ok
                        && !src.contains("crate = ")
                    {
                        use std::io::Write;
                        let _ = writeln!(dump, "{}", jobj(&[("src", jstr(&src)), ("keys", jarr(&keys.iter().map(|k| jstr(k)).collect::<Vec<_>>()))]));
                    }
                }
            }
            (Obs::Err(_), _) => rep.count("diagnosed", 1),
        }
        if rep.samples.len() < 6 && case_no % 7919 == 0 {
            rep.sample(jobj(&[("src", jstr(&src)), ("outcome", jstr(match obs { Obs::Ok(_) => "expands", Obs::Err(_) => "compile_error", _ => "?" }))]));
        }
    };

    for spelling in ["ts", "serde"] {
        // ---------------- structs
        for &cf in ALL_FIELDS {
            // attribute subsets: container x field, sizes 0..=2 (thorough: 3)
            let c_opts: Vec<Placed> = C_STRUCT.iter().map(|o| Placed { pos: "container", opt: o.clone() }).collect();
            let f_opts: Vec<Placed> = if cf.has_field() {
                F_OPTS.iter().map(|o| Placed { pos: "field", opt: o.clone() }).collect()
            } else {
                vec![]
            };
            let all: Vec<Placed> = c_opts.into_iter().chain(f_opts).collect();
            let max = if deep { 3 } else { 2 };
            for subset in subsets_upto(all.len(), max) {
                let placed: Vec<Placed> = subset.iter().map(|&i| all[i].clone()).collect();
                // one option per key and position
                if has_dup_key(&placed) {
                    continue;
                }
                let cattr: Vec<&str> = placed.iter().filter(|p| p.pos == "container").map(|p| p.opt.text).collect();
                let fattr: Vec<&str> = placed.iter().filter(|p| p.pos == "field").map(|p| p.opt.text).collect();
                let gens: &[(&str, &str, &str)] = if placed.len() <= 1 { generics } else { &generics[..2] };
                for (params, wh, fty) in gens {
                    let names: &[&str] = if placed.is_empty() { idents } else { &idents[..1] };
                    for name in names {
                        let tys: Vec<&str> = if placed.len() <= 1 && params.is_empty() { field_tys.to_vec() } else { vec![*fty] };
                        for ty in tys {
                            // type parameters must be used: unit-like shapes only without generics
                            if !params.is_empty() && !cf.has_field() {
                                continue;
                            }
                            let body = cf.render(&attr(spelling, &fattr.join(", ")), ty, false);
                            let cattr_s = attr(spelling, &cattr.join(", "));
                            let src = if cf.named() {
                                format!("{cattr_s} struct {name}{params} {wh}{body}")
                            } else {
                                format!("{cattr_s} struct {name}{params}{body} {wh};")
                            };
                            run_case(rep, src, true, cf, None, &placed, spelling);
                        }
                    }
                }
            }
        }
        // ---------------- enums
        let e_opts: Vec<Opt> = C_STRUCT
            .iter()
            .filter(|o| o.key != "optional_fields")
            .cloned()
            .collect();
        for &vf in ALL_FIELDS {
            let c_opts: Vec<Placed> = e_opts.iter().map(|o| Placed { pos: "container", opt: o.clone() }).collect();
            let v_opts: Vec<Placed> = V_OPTS.iter().map(|o| Placed { pos: "variant", opt: o.clone() }).collect();
            let f_opts: Vec<Placed> = if vf.has_field() {
                F_OPTS.iter().map(|o| Placed { pos: "field", opt: o.clone() }).collect()
            } else {
                vec![]
            };
            let all: Vec<Placed> = c_opts.into_iter().chain(v_opts).chain(f_opts).collect();
            let max = if deep { 3 } else { 2 };
            for subset in subsets_upto(all.len(), max) {
                let placed: Vec<Placed> = subset.iter().map(|&i| all[i].clone()).collect();
                if has_dup_key(&placed) {
                    continue;
                }
                let cattr: Vec<&str> = placed.iter().filter(|p| p.pos == "container").map(|p| p.opt.text).collect();
                let vattr: Vec<&str> = placed.iter().filter(|p| p.pos == "variant").map(|p| p.opt.text).collect();
                let fattr: Vec<&str> = placed.iter().filter(|p| p.pos == "field").map(|p| p.opt.text).collect();
                let gens: &[(&str, &str, &str)] = if placed.len() <= 1 { generics } else { &generics[..1] };
                for (params, wh, fty) in gens {
                    if !params.is_empty() && !vf.has_field() {
                        continue;
                    }
                    let payload = vf.render(&attr(spelling, &fattr.join(", ")), fty, false);
                    for others in ["", ", Other", ", Other(i32), Third { x: i32 }"] {
                        if !others.is_empty() && placed.len() > 1 {
                            continue;
                        }
                        let src = format!(
                            "{} enum Item{params} {wh} {{ {} First{payload}{others} }}",
                            attr(spelling, &cattr.join(", ")),
                            attr(spelling, &vattr.join(", ")),
                        );
                        run_case(rep, src, false, Fields::Unit, Some(vf), &placed, spelling);
                    }
                }
            }
        }
        // every triple of the representation-related container keys (the documented conflicts
        // involve up to three of them), for every shape of the first variant
        let rep_keys = ["tag", "content", "untagged", "rename_all", "rename_all_fields", "type", "as", "rename"];
        let rep_opts: Vec<Opt> = e_opts.iter().filter(|o| o.form == "valid" && rep_keys.contains(&o.key)).cloned().collect();
        for &vf in ALL_FIELDS {
            for i in 0..rep_opts.len() {
                for j in i + 1..rep_opts.len() {
                    for k in j + 1..rep_opts.len() {
                        let placed: Vec<Placed> = [i, j, k].iter().map(|&x| Placed { pos: "container", opt: rep_opts[x].clone() }).collect();
                        if has_dup_key(&placed) {
                            continue;
                        }
                        let cattr: Vec<&str> = placed.iter().map(|p| p.opt.text).collect();
                        let payload = vf.render("", "i32", false);
                        for order in [[0usize, 1], [1, 0]] {
                            let vs = [format!("First{payload}"), "Other".to_string()];
                            let src = format!("{} enum Item {{ {}, {} }}", attr(spelling, &cattr.join(", ")), vs[order[0]], vs[order[1]]);
                            run_case(rep, src, false, Fields::Unit, Some(vf), &placed, spelling);
                        }
                    }
                }
            }
        }
        // empty enum, with each container option
        for o in e_opts.iter() {
            let src = format!("{} enum Item {{}}", attr(spelling, o.text));
            let placed = vec![Placed { pos: "container", opt: o.clone() }];
            // an empty enum has no variants, so only container-level rules apply
            run_case(rep, src, false, Fields::Unit, None, &placed, spelling);
        }
    }
    // empty attribute lists, doc attributes of odd kinds, unsupported items
    if si == 0 {
        for src in [
            "#[ts()] struct S { a: i32 }",
            "#[ts] struct S { a: i32 }",
            "#[ts = \"x\"] struct S { a: i32 }",
            "#[serde()] struct S { a: i32 }",
            "#[serde] struct S { a: i32 }",
            "#[doc = 3] struct S { a: i32 }",
            "#[doc(hidden)] struct S { #[doc(alias = \"x\")] a: i32 }",
            "struct S { #[ts()] a: i32 }",
            "struct S { #[ts(rename = \"\")] a: i32 }",
            "struct S { #[ts(type = \"\")] a: i32 }",
            "#[ts(rename = \"\")] struct S { a: i32 }",
            "#[ts(tag = \"\")] struct S { a: i32 }",
            "#[ts(tag = \"\", content = \"\")] enum E { A(i32) }",
            "#[ts(rename_all = \"camelCase\")] struct S { __: i32 }",
            "#[ts(rename_all = \"camelCase\")] struct S { é: i32 }",
            "#[ts(rename_all = \"camelCase\")] enum E { É }",
            "#[ts(rename_all = \"camelCase\")] struct S { _ä: i32, __x: i32 }",
            "#[ts(rename_all = \"PascalCase\")] struct S { __: i32 }",
            "#[ts(rename_all_fields = \"camelCase\")] enum E { A { __: i32 } }",
            "union U { a: i32, b: u32 }",
            "fn f() {}",
            "#[ts(concrete(T = i32, U = String))] struct S<T, U> { a: T, b: U }",
            "#[ts(concrete(X = i32))] struct S<T> { a: T }",
            "#[ts(bound = \"\")] struct S<T> { a: T }",
            "struct S<T: Iterator> { a: T::Item }",
            "struct S(#[ts(skip)] i32);",
            "struct S(#[ts(skip)] i32, #[ts(skip)] i32);",
            "enum E { #[ts(skip)] A, #[ts(skip)] B }",
            "#[ts(tag = \"t\")] enum E { A(), B {} }",
            "#[ts(untagged)] enum E { A(), B {}, C }",
        ] {
            rep.evaluations += 1;
            match derive_src(src) {
                Obs::Panic(p) => rep.violation(
                    jobj(&[("check", jstr("derive-panics")), ("spelling", jstr("special")), ("keys", jarr(&[jstr(src)]))]),
                    jobj(&[("src", jstr(src)), ("panic", jstr(&p))]),
                ),
                Obs::NotAnItem(_) => rep.count("special_not_items", 1),
                _ => rep.count("special_ok_or_err", 1),
            }
        }
    }
}

fn has_dup_key(placed: &[Placed]) -> bool {
    for (i, a) in placed.iter().enumerate() {
        for b in &placed[i + 1..] {
            if a.pos == b.pos && a.opt.key == b.opt.key {
                return true;
            }
        }
    }
    false
}

fn subsets_upto(n: usize, k: usize) -> Vec<Vec<usize>> {
    let mut out = vec![vec![]];
    for i in 0..n {
        out.push(vec![i]);
    }
    if k >= 2 {
        for i in 0..n {
            for j in i + 1..n {
                out.push(vec![i, j]);
            }
        }
    }
    if k >= 3 {
        for i in 0..n {
            for j in i + 1..n {
                for l in j + 1..n {
                    out.push(vec![i, j, l]);
                }
            }
        }
    }
    out
}

// =================================================================================================
// C10 — serde / ts spellings
// =================================================================================================

struct Slot {
    pos: &'static str,
    /// item template with `@` where the attribute goes
    template: &'static str,
    /// supported keys at this position (both spellings) with two different values each
    keys: &'static [(&'static str, &'static str, &'static str)],
}

const SLOTS: &[Slot] = &[
    Slot {
        pos: "struct",
        template: "@ struct S<T> { first_field: T, second_one: Option<i32> }",
        keys: &[
            ("rename", "rename = \"Alpha\"", "rename = \"Beta\""),
            ("rename_all", "rename_all = \"camelCase\"", "rename_all = \"SCREAMING_SNAKE_CASE\""),
            ("tag", "tag = \"kind\"", "tag = \"type\""),
            // values that need escaping in the output
            ("tag", "tag = \"ki\\\"nd\"", "tag = \"ty\\\\pe\""),
            ("bound", "bound = \"T: Clone\"", "bound = \"T: Copy\""),
        ],
    },
    Slot {
        pos: "enum",
        template: "@ enum E<T> { UnitV, NewV(T), TupV(i32, T), StructV { inner_field: T } }",
        keys: &[
            ("rename", "rename = \"Alpha\"", "rename = \"Beta\""),
            ("rename_all", "rename_all = \"camelCase\"", "rename_all = \"kebab-case\""),
            ("rename_all_fields", "rename_all_fields = \"camelCase\"", "rename_all_fields = \"UPPERCASE\""),
            ("untagged", "untagged", "untagged"),
            ("bound", "bound = \"T: Clone\"", "bound = \"T: Copy\""),
        ],
    },
    Slot {
        pos: "struct-with-type-override",
        template: "#[ts(type = \"string\")] @ struct S { first_field: i32 }",
        keys: &[("rename", "rename = \"Alpha\"", "rename = \"Beta\"")],
    },
    Slot {
        pos: "struct-with-as",
        template: "#[ts(as = \"Inner\")] @ struct S { first_field: i32 }",
        keys: &[("rename", "rename = \"Alpha\"", "rename = \"Beta\"")],
    },
    Slot {
        pos: "enum-with-type-override",
        template: "#[ts(type = \"string\")] @ enum E { UnitV, NewV(i32) }",
        keys: &[("rename", "rename = \"Alpha\"", "rename = \"Beta\"")],
    },
    Slot {
        pos: "enum-with-as",
        template: "#[ts(as = \"Inner\")] @ enum E { UnitV, NewV(i32) }",
        keys: &[("rename", "rename = \"Alpha\"", "rename = \"Beta\"")],
    },
    Slot {
        pos: "unit-struct",
        template: "@ struct S;",
        keys: &[("rename", "rename = \"Alpha\"", "rename = \"Beta\"")],
    },
    Slot {
        pos: "newtype-struct",
        template: "@ struct S(Inner);",
        keys: &[("rename", "rename = \"Alpha\"", "rename = \"Beta\"")],
    },
    Slot {
        pos: "enum-tagged",
        template: "@ enum E { UnitV, NewV(Inner), StructV { inner_field: i32 } }",
        keys: &[
            ("tag", "tag = \"kind\"", "tag = \"type\""),
            ("tag", "tag = \"ki\\\"nd\"", "tag = \"ty\\\\pe\""),
        ],
    },
    Slot {
        pos: "enum-representation",
        template: "@ enum E { UnitV, NewV(i32), TupV(i32, i32), StructV { inner_field: i32 } }",
        keys: &[
            ("tag", "tag = \"kind\"", "tag = \"type\""),
            ("content", "content = \"c\"", "content = \"data\""),
            ("rename_all", "rename_all = \"camelCase\"", "rename_all = \"kebab-case\""),
        ],
    },
    Slot {
        pos: "enum-adjacent",
        template: "#[ts(tag = \"t\")] @ enum E { UnitV, NewV(i32), TupV(i32, i32), StructV { inner_field: i32 } }",
        keys: &[
            ("content", "content = \"c\"", "content = \"data\""),
            ("content", "content = \"c\\\"d\"", "content = \"da\\\\ta\""),
        ],
    },
    Slot {
        pos: "variant",
        template: "enum E { First, @ SecondV { inner_field: i32 }, Third(i32) }",
        keys: &[
            ("rename", "rename = \"alpha\"", "rename = \"beta\""),
            ("rename", "rename = \"al\\\"pha\"", "rename = \"be\\\\ta\""),
            ("rename_all", "rename_all = \"camelCase\"", "rename_all = \"UPPERCASE\""),
            ("skip", "skip", "skip"),
            ("untagged", "untagged", "untagged"),
        ],
    },
    Slot {
        pos: "variant-newtype",
        template: "#[ts(tag = \"t\", content = \"c\")] enum E { First, @ SecondV(i32) }",
        keys: &[
            ("rename", "rename = \"alpha\"", "rename = \"beta\""),
            ("skip", "skip", "skip"),
            ("untagged", "untagged", "untagged"),
        ],
    },
    Slot {
        pos: "field",
        template: "struct S { before: i32, @ the_field: Inner, after: i32 }",
        keys: &[
            ("rename", "rename = \"alpha\"", "rename = \"beta-2\""),
            ("rename", "rename = \"al\\\"pha\"", "rename = \"\""),
            ("skip", "skip", "skip"),
            ("flatten", "flatten", "flatten"),
        ],
    },
    Slot {
        pos: "variant-field",
        template: "#[ts(tag = \"t\")] enum E { V { before: i32, @ the_field: Inner } }",
        keys: &[
            ("rename", "rename = \"alpha\"", "rename = \"beta\""),
            ("skip", "skip", "skip"),
            ("flatten", "flatten", "flatten"),
        ],
    },
    Slot {
        pos: "tuple-field",
        template: "struct S(i32, @ Inner);",
        keys: &[("skip", "skip", "skip")],
    },
    Slot {
        pos: "newtype-field",
        template: "enum E { V(@ Inner), W }",
        keys: &[("skip", "skip", "skip")],
    },
];

/// serde entries ts-rs does not support (bare, valued, nested forms).
const UNSUPPORTED: &[(&str, &str)] = &[
    ("bare", "skip_serializing"),
    ("bare", "skip_deserializing"),
    ("bare", "other"),
    ("bare", "transparent"),
    ("bare", "borrow"),
    ("valued", "skip_serializing_if = \"Option::is_none\""),
    ("valued", "default = \"some::path\""),
    ("valued", "alias = \"x\""),
    ("valued", "deserialize_with = \"f\""),
    ("valued", "serialize_with = \"f\""),
    ("valued", "from = \"X\""),
    ("valued", "into = \"X\""),
    ("valued", "crate = \"s\""),
    ("valued", "expecting = \"e\""),
    ("valued", "remote = \"R\""),
    ("nested-supported-key", "rename(serialize = \"ser_name\")"),
    ("nested-supported-key", "rename(serialize = \"ser_name\", deserialize = \"de_name\")"),
    ("nested-supported-key", "bound(serialize = \"T: Clone\")"),
    ("nested-supported-key", "rename_all(serialize = \"camelCase\")"),
    ("nested", "borrow(bound = \"x\")"),
];

fn fill(template: &str, attrs: &str) -> String {
    template.replace('@', attrs)
}

fn equiv(rep: &mut Report) {
    let (si, sn) = slice();
    let serde_compat = cfg!(feature = "serde-compat");
    let mut case_no = 0usize;
    let mut compare = |rep: &mut Report, check: &str, pos: &str, kinds: &str, a_src: String, b_src: String| {
        case_no += 1;
        if case_no % sn != si {
            return;
        }
        rep.evaluations += 1;
        let (mut a, mut b) = (derive_src(&a_src), derive_src(&b_src));
        // `bound` only shapes the where clause of the generated impl, never the binding: compare
        // the impl bodies only
        if kinds == "supported:bound" && check == "ts-wins-over-serde" {
            for o in [&mut a, &mut b] {
                if let Obs::Ok(t) = o {
                    if let Some(i) = t.find('{') {
                        *t = t[i..].to_string();
                    }
                }
            }
        }
        rep.distinct(&format!("{check}|{pos}|{a_src}"));
        let class = jobj(&[
            ("check", jstr(check)),
            ("position", jstr(pos)),
            ("entries", jstr(kinds)),
            ("serde_compat", serde_compat.to_string()),
        ]);
        let show = |o: &Obs| match o {
            Obs::Ok(t) => format!("Ok({} tokens chars)", t.len()),
            other => format!("{other:?}"),
        };
        match (&a, &b) {
            (Obs::NotAnItem(e), _) | (_, Obs::NotAnItem(e)) => {
                rep.machinery_errors.push(format!("non-item generated: {a_src} / {b_src}: {e}"))
            }
            (Obs::Panic(p), _) | (_, Obs::Panic(p)) => rep.violation(
                jobj(&[("check", jstr("derive-panics")), ("position", jstr(pos)), ("entries", jstr(kinds)), ("serde_compat", serde_compat.to_string())]),
                jobj(&[("left", jstr(&a_src)), ("right", jstr(&b_src)), ("panic", jstr(p))]),
            ),
            (a, b) if a == b => {
                rep.count("equal", 1);
                if matches!(a, Obs::Err(_)) {
                    rep.count("equal_both_rejected", 1);
                }
                if rep.samples.len() < 6 && case_no % 997 == 0 {
                    rep.sample(jobj(&[("check", jstr(check)), ("left", jstr(&a_src)), ("right", jstr(&b_src)), ("same_expansion", "true".into())]));
                }
            }
            (a, b) => {
                // find the first differing region for the report
                let (sa, sb) = (show(a), show(b));
                let diff = match (a, b) {
                    (Obs::Ok(x), Obs::Ok(y)) => {
                        let i = x.bytes().zip(y.bytes()).position(|(p, q)| p != q).unwrap_or(x.len().min(y.len()));
                        let cut = |s: &str| {
                            let start = s.char_indices().map(|(k, _)| k).filter(|k| *k <= i.saturating_sub(60)).last().unwrap_or(0);
                            s[start..].chars().take(160).collect::<String>()
                        };
                        format!("left: …{} | right: …{}", cut(x), cut(y))
                    }
                    _ => format!("{sa} vs {sb}"),
                };
                rep.violation(class, jobj(&[("left", jstr(&a_src)), ("right", jstr(&b_src)), ("difference", jstr(&diff))]));
            }
        }
    };

    for slot in SLOTS {
        for (key, v1, v2) in slot.keys {
            let kinds = format!("supported:{key}");
            if serde_compat {
                // (1) the two spellings are equivalent
                compare(rep, "serde-spelling-equals-ts-spelling", slot.pos, &kinds,
                    fill(slot.template, &format!("#[serde({v1})]")), fill(slot.template, &format!("#[ts({v1})]")));
                // (2) ts wins, in both attribute orders
                if v1 != v2 {
                    compare(rep, "ts-wins-over-serde", slot.pos, &kinds,
                        fill(slot.template, &format!("#[ts({v1})] #[serde({v2})]")), fill(slot.template, &format!("#[ts({v1})]")));
                    compare(rep, "ts-wins-over-serde", slot.pos, &kinds,
                        fill(slot.template, &format!("#[serde({v2})] #[ts({v1})]")), fill(slot.template, &format!("#[ts({v1})]")));
                }
                // (3) unsupported entries are inert, wherever they stand
                for (ukind, u) in UNSUPPORTED {
                    let kinds = format!("supported:{key}+unsupported:{ukind}");
                    let base = fill(slot.template, &format!("#[serde({v1})]"));
                    for list in [
                        format!("#[serde({u}, {v1})]"),
                        format!("#[serde({v1}, {u})]"),
                        format!("#[serde({u})] #[serde({v1})]"),
                        format!("#[serde({v1})] #[serde({u})]"),
                    ] {
                        compare(rep, "unsupported-serde-entry-is-inert", slot.pos, &kinds, fill(slot.template, &list), base.clone());
                    }
                    for (ukind2, u2) in UNSUPPORTED.iter().step_by(3) {
                        let kinds = format!("supported:{key}+unsupported:{ukind}+unsupported:{ukind2}");
                        for list in [
                            format!("#[serde({u}, {v1}, {u2})]"),
                            format!("#[serde({u}, {u2}, {v1})]"),
                            format!("#[serde({v1}, {u}, {u2})]"),
                        ] {
                            compare(rep, "unsupported-serde-entry-is-inert", slot.pos, &kinds, fill(slot.template, &list), base.clone());
                        }
                    }
                }
                // two supported keys around an unsupported one
                for (key2, w1, _) in slot.keys {
                    if key2 == key || (*key == "untagged" || *key2 == "untagged") && (*key == "tag" || *key2 == "tag") {
                        continue;
                    }
                    // skip pairs ts-rs documents as incompatible
                    if (*key == "flatten" && *key2 == "rename") || (*key == "rename" && *key2 == "flatten") {
                        continue;
                    }
                    // the same two entries in one list or in two lists, in either spelling or mixed
                    {
                        let kinds = format!("supported:{key}+supported:{key2}");
                        let joined_serde = fill(slot.template, &format!("#[serde({v1}, {w1})]"));
                        let joined_ts = fill(slot.template, &format!("#[ts({v1}, {w1})]"));
                        compare(rep, "two-lists-equal-one-list", slot.pos, &kinds, fill(slot.template, &format!("#[serde({v1})] #[serde({w1})]")), joined_serde.clone());
                        compare(rep, "two-lists-equal-one-list", slot.pos, &kinds, fill(slot.template, &format!("#[ts({v1})] #[ts({w1})]")), joined_ts.clone());
                        compare(rep, "two-lists-equal-one-list", slot.pos, &kinds, fill(slot.template, &format!("#[ts({v1})] #[serde({w1})]")), joined_ts.clone());
                        compare(rep, "two-lists-equal-one-list", slot.pos, &kinds, fill(slot.template, &format!("#[serde({v1})] #[ts({w1})]")), joined_ts.clone());
                    }
                    for (ukind, u) in UNSUPPORTED {
                        let kinds = format!("supported:{key}+supported:{key2}+unsupported:{ukind}");
                        let base = fill(slot.template, &format!("#[serde({v1}, {w1})]"));
                        compare(rep, "unsupported-serde-entry-is-inert", slot.pos, &kinds,
                            fill(slot.template, &format!("#[serde({v1}, {u}, {w1})]")), base.clone());
                        compare(rep, "unsupported-serde-entry-is-inert", slot.pos, &kinds,
                            fill(slot.template, &format!("#[serde({u}, {v1}, {w1})]")), base.clone());
                    }
                }
            } else {
                // (4) serde-compat off: serde attributes have no effect at all
                let none = fill(slot.template, "");
                compare(rep, "serde-attributes-without-serde-compat", slot.pos, &kinds, fill(slot.template, &format!("#[serde({v1})]")), none.clone());
                for (ukind, u) in UNSUPPORTED {
                    let kinds = format!("unsupported:{ukind}");
                    compare(rep, "serde-attributes-without-serde-compat", slot.pos, &kinds, fill(slot.template, &format!("#[serde({u}, {v1})]")), none.clone());
                }
            }
        }
        // unsupported entries alone
        if serde_compat {
            let none = fill(slot.template, "");
            for (ukind, u) in UNSUPPORTED {
                let kinds = format!("unsupported:{ukind}");
                compare(rep, "unsupported-serde-entry-is-inert", slot.pos, &kinds, fill(slot.template, &format!("#[serde({u})]")), none.clone());
                for (ukind2, u2) in UNSUPPORTED {
                    let kinds = format!("unsupported:{ukind}+unsupported:{ukind2}");
                    compare(rep, "unsupported-serde-entry-is-inert", slot.pos, &kinds, fill(slot.template, &format!("#[serde({u}, {u2})]")), none.clone());
                }
            }
        }
    }
    // `#[ts(skip)]` wins over everything serde says at the same field / variant - also over serde entries
    // that would be rejected at that position without it: every skippable position x every serde entry
    // that occurs anywhere in the slots (valid or not where it is put) and every unsupported entry x
    // both attribute orders
    if serde_compat {
        const SKIP_POSITIONS: &[(&str, &str)] = &[
            ("named-field", "struct S { @ a: i32, b: i32 }"),
            ("named-field-option", "struct S { @ a: Option<i32>, b: i32 }"),
            ("tuple-struct-field", "struct S(@ i32, String);"),
            ("newtype-struct-field", "struct S(@ i32);"),
            ("unit-variant", "enum E { @ A, B(i32) }"),
            ("newtype-variant", "enum E { @ A(i32), B }"),
            ("tuple-variant", "enum E { @ A(i32, String), B }"),
            ("struct-variant", "enum E { @ A { x: i32 }, B }"),
            ("struct-variant-of-tagged-enum", "#[ts(tag = \"t\")] enum E { @ A { x: i32 }, B }"),
            ("field-of-struct-variant", "enum E { A { @ x: i32, y: i32 }, B }"),
            ("field-of-tuple-variant", "enum E { A(@ i32, String), B }"),
            ("field-of-newtype-variant", "enum E { A(@ i32), B }"),
        ];
        let mut entries: Vec<(String, String)> = vec![];
        for slot in SLOTS {
            for (key, v1, _) in slot.keys {
                if !entries.iter().any(|(_, e)| e == v1) {
                    entries.push((format!("supported:{key}"), v1.to_string()));
                }
            }
        }
        for (ukind, u) in UNSUPPORTED {
            entries.push((format!("unsupported:{ukind}"), u.to_string()));
        }
        for (pos, template) in SKIP_POSITIONS {
            let base = fill(template, "#[ts(skip)]");
            for (kinds, e) in &entries {
                compare(rep, "ts-skip-wins", pos, kinds, fill(template, &format!("#[ts(skip)] #[serde({e})]")), base.clone());
                compare(rep, "ts-skip-wins", pos, kinds, fill(template, &format!("#[serde({e})] #[ts(skip)]")), base.clone());
            }
        }
    }
    // `with` needs as/type
    if serde_compat && si == 0 {
        compare(rep, "ts-skip-wins", "field", "supported:skip",
            "struct S { #[ts(skip)] #[serde(rename = \"x\", with = \"m\")] a: i32, b: i32 }".into(),
            "struct S { #[ts(skip)] a: i32, b: i32 }".into());
        compare(rep, "serde-with-and-as", "field", "with",
            "struct S { #[serde(with = \"m\")] #[ts(as = \"String\")] a: i32 }".into(),
            "struct S { #[ts(as = \"String\")] a: i32 }".into());
        rep.evaluations += 1;
        match derive_src("struct S { #[serde(with = \"m\")] a: i32 }") {
            Obs::Err(_) => rep.count("serde_with_without_as_is_diagnosed", 1),
            other => rep.violation(
                jobj(&[("check", jstr("serde-with-without-as-not-diagnosed")), ("position", jstr("field")), ("entries", jstr("with")), ("serde_compat", "true".into())]),
                jobj(&[("obs", jstr(&format!("{other:?}").chars().take(200).collect::<String>()))]),
            ),
        }
    }
}

// =================================================================================================
// C15 (i) — doc comments in process
// =================================================================================================

const DOC_TEXTS: &[(&str, &str)] = &[
    ("plain", " x"),
    ("empty", ""),
    ("comment-terminator", " has */ inside"),
    ("comment-opener", " has /* inside"),
    ("glob", " see **/*.rs"),
    ("export-type-words", " export type Z = "),
    ("quotes-backslash", " \"q\" 'r' \\ "),
    ("non-ascii", " é日本"),
    ("blank-line-inside", "a\n\nb"),
    ("newline-only", "\n"),
    ("long", " 0123456789abcdefghijklmnopqrstuvwxyz0123456789abcdefghijklmnopqrstuvwxyz0123456789abcdefghijklmnopqrstuvwxyz0123456789abcdefghijklmnopqrstuvwxyz0123456789abcdefghijklmnopqrstuvwxyz0123456789abcdefghijklmnopqrstuvwxyz0123456789abcdefghijklmnopqrstuvwxyz0123456789abcdefghijklmnopqrstuvwxyz012345678"),
    ("block-with-stars", "\n * first\n * second\n "),
    ("block-no-stars", "\n first\n second\n"),
    ("block-terminator", "\n ends */ early\n"),
    ("slash-slash", " // not a comment"),
    ("template", " `${x}`"),
    ("leading-slash", "/etc/passwd is read"),
    ("leading-slash-multiline", "/ x\ny"),
    ("object-intersection-words", " has { a } & { b } inside"),
    ("trailing-star", " ends with *"),
    ("only-slash", "/"),
];

fn doc_attrs(texts: &[&str]) -> String {
    texts
        .iter()
        .map(|t| format!("#[doc = {}]", proc_macro2::Literal::string(t)))
        .collect::<Vec<_>>()
        .join(" ")
}

fn docs(rep: &mut Report) {
    let (si, sn) = slice();
    let n = DOC_TEXTS.len();
    let max_len = if thorough() { 3 } else { 2 };
    let mut lists: Vec<Vec<usize>> = vec![];
    for a in 0..n {
        lists.push(vec![a]);
        for b in 0..n {
            lists.push(vec![a, b]);
            if max_len >= 3 {
                for c in 0..n {
                    lists.push(vec![a, b, c]);
                }
            }
        }
    }
    let positions: &[(&str, &str, &str)] = &[
        ("container-struct", "@ struct S { a: i32, b: String }", "type"),
        ("container-enum", "@ enum E { A, B(i32) }", "type"),
        ("field", "struct S { @ a: i32, b: String }", "field"),
        ("second-field", "struct S { a: i32, @ b: String }", "field"),
        ("variant", "enum E { @ A, B(i32) }", "dropped"),
        ("variant-field", "enum E { A { @ x: i32 }, B }", "field"),
        ("flattened-field", "struct S { #[ts(flatten)] @ a: Inner, b: String }", "dropped"),
        ("tuple-field", "struct S(@ i32, String);", "dropped"),
        ("tagged-variant-field", "#[ts(tag = \"t\")] enum E { A { @ x: i32 } }", "field"),
    ];
    let mut case_no = 0usize;
    for list in &lists {
        let texts: Vec<&str> = list.iter().map(|&i| DOC_TEXTS[i].1).collect();
        let kinds: Vec<&str> = list.iter().map(|&i| DOC_TEXTS[i].0).collect();
        let attrs_src = doc_attrs(&texts);
        // ---- parse_docs itself
        case_no += 1;
        if case_no % sn == si {
            rep.evaluations += 1;
            let item: syn::ItemStruct = syn::parse_str(&format!("{attrs_src} struct S;")).unwrap();
            match caught(|| crate::utils::parse_docs(&item.attrs)) {
                Err(p) => rep.violation(
                    jobj(&[("check", jstr("parse-docs-panics")), ("doc_kinds", jarr(&kinds.iter().map(|k| jstr(k)).collect::<Vec<_>>()))]),
                    jobj(&[("docs", jstr(&attrs_src)), ("panic", jstr(&p))]),
                ),
                Ok(Err(e)) => rep.violation(
                    jobj(&[("check", jstr("parse-docs-rejects-string-docs")), ("doc_kinds", jarr(&kinds.iter().map(|k| jstr(k)).collect::<Vec<_>>()))]),
                    jobj(&[("docs", jstr(&attrs_src)), ("error", jstr(&e.to_string()))]),
                ),
                Ok(Ok(block)) => {
                    rep.distinct(&block);
                    let mut problems = vec![];
                    if !block.starts_with("/**") {
                        problems.push("does not start with /**".to_string());
                    }
                    if !block.ends_with("*/\n") {
                        problems.push("does not end with */ and a newline".to_string());
                    }
                    // a JavaScript block comment ends at the FIRST `*/` after its opener
                    if let Some(first) = block.get(2..).and_then(|b| b.find("*/")) {
                        if first + 2 + 2 != block.len() - 1 {
                            problems.push(format!("the comment ends early at byte {}", first + 2));
                        }
                    }
                    // the documentation text is carried over (modulo escaping the terminator)
                    for t in &texts {
                        for line in t.lines() {
                            let l = line.trim();
                            if l.is_empty() {
                                continue;
                            }
                            let esc = l.replace("*/", "*\\/");
                            let esc2 = l.replace("*/", "* /");
                            if !(block.contains(l) || block.contains(&esc) || block.contains(&esc2)) {
                                problems.push(format!("doc text {l:?} is missing"));
                            }
                        }
                    }
                    if !problems.is_empty() {
                        let features: BTreeSet<&str> = texts
                            .iter()
                            .copied()
                            .filter(|t| t.contains("*/"))
                            .collect();
                        rep.violation(
                            jobj(&[
                                ("check", jstr("doc-block-malformed")),
                                ("terminator_in_text", (!features.is_empty()).to_string()),
                            ]),
                            jobj(&[("docs", jstr(&attrs_src)), ("block", jstr(&block)), ("problems", jarr(&problems.iter().map(|p| jstr(p)).collect::<Vec<_>>()))]),
                        );
                    } else {
                        rep.count("doc_blocks_well_formed", 1);
                    }
                }
            }
        }
        // ---- type invariance: the expansion with docs differs from the one without only in docs
        for (pos, template, carried) in positions {
            case_no += 1;
            if case_no % sn != si {
                continue;
            }
            rep.evaluations += 1;
            let with = derive_src(&template.replace('@', &attrs_src));
            let without = derive_src(&template.replace('@', ""));
            let class = |check: &str| jobj(&[("check", jstr(check)), ("position", jstr(pos))]);
            match (&with, &without) {
                (Obs::Ok(w), Obs::Ok(wo)) => {
                    let item: syn::ItemStruct = syn::parse_str(&format!("{attrs_src} struct S;")).unwrap();
                    let block = crate::utils::parse_docs(&item.attrs).unwrap_or_default();
                    let mut stripped = w.clone();
                    if !block.is_empty() {
                        let lit_type = proc_macro2::Literal::string(&block).to_string();
                        let lit_field = proc_macro2::Literal::string(&format!("\n{block}")).to_string();
                        stripped = stripped.replace(
                            &format!("const DOCS : Option < & 'static str > = Some ({lit_type}) ;"),
                            "",
                        );
                        stripped = stripped.replace(&lit_field, "\"\"");
                    }
                    let norm = |s: &str| s.split_whitespace().collect::<Vec<_>>().join(" ");
                    if norm(&stripped) != norm(wo) {
                        rep.violation(
                            class("docs-change-the-expansion-beyond-docs"),
                            jobj(&[("docs", jstr(&attrs_src)), ("template", jstr(template))]),
                        );
                    } else {
                        rep.count("type_invariant", 1);
                    }
                    // carried over where the property requires it
                    if *carried != "dropped" && !block.is_empty() {
                        let lit = proc_macro2::Literal::string(&block).to_string();
                        let lit_field = proc_macro2::Literal::string(&format!("\n{block}")).to_string();
                        let present = if *carried == "type" { w.contains(&lit) } else { w.contains(&lit_field) };
                        if !present {
                            rep.violation(
                                class("docs-not-carried-into-expansion"),
                                jobj(&[("docs", jstr(&attrs_src)), ("template", jstr(template))]),
                            );
                        } else {
                            rep.count("docs_carried", 1);
                        }
                    }
                    if rep.samples.len() < 5 && case_no % 499 == 0 {
                        rep.sample(jobj(&[("position", jstr(pos)), ("docs", jstr(&attrs_src)), ("doc_block", jstr(&block))]));
                    }
                }
                (Obs::Panic(p), _) | (_, Obs::Panic(p)) => rep.violation(
                    class("derive-panics"),
                    jobj(&[("docs", jstr(&attrs_src)), ("template", jstr(template)), ("panic", jstr(p))]),
                ),
                (a, b) => rep.violation(
                    class("docs-change-the-outcome"),
                    jobj(&[("docs", jstr(&attrs_src)), ("template", jstr(template)), ("with", jstr(&format!("{a:?}").chars().take(200).collect::<String>())), ("without", jstr(&format!("{b:?}").chars().take(200).collect::<String>()))]),
                ),
            }
        }
    }
}
