//! Tiny value domains: the full product of per-field domains (capped, cap recorded by the caller).

use std::collections::{BTreeMap, BTreeSet, HashMap, HashSet};

pub trait Vals: Sized + Clone {
    fn vals() -> Vec<Self>;
}

/// Index vectors into per-slot domains: the full product when it has at most `cap` elements,
/// otherwise every slot varied alone around index 0 plus the all-last corner.
pub fn mixed(lens: &[usize], cap: usize) -> Vec<Vec<usize>> {
    if lens.iter().any(|&l| l == 0) {
        return vec![];
    }
    let total = lens.iter().fold(1usize, |a, &l| a.saturating_mul(l));
    if total <= cap {
        let mut out = vec![vec![]];
        for &l in lens {
            let mut next = Vec::with_capacity(out.len() * l);
            for p in &out {
                for i in 0..l {
                    let mut q = p.clone();
                    q.push(i);
                    next.push(q);
                }
            }
            out = next;
        }
        out
    } else {
        let base = vec![0; lens.len()];
        let mut out = vec![base.clone()];
        for (s, &l) in lens.iter().enumerate() {
            for i in 1..l {
                let mut q = base.clone();
                q[s] = i;
                out.push(q);
            }
        }
        out.push(lens.iter().map(|&l| l - 1).collect());
        out
    }
}

macro_rules! leaf {
    ($($t:ty => [$($v:expr),*]);* $(;)?) => { $( impl Vals for $t { fn vals() -> Vec<Self> { vec![$($v),*] } } )* };
}

leaf! {
    i8 => [0, 1, -1]; i16 => [0, 1, -1]; i32 => [0, 1, -1]; i64 => [0, 1, -1, i64::MAX]; i128 => [0, 1, -1]; isize => [0, 1, -1];
    u8 => [0, 1, u8::MAX]; u16 => [0, 1]; u32 => [0, 1]; u64 => [0, 1, u64::MAX]; u128 => [0, 1]; usize => [0, 1];
    f32 => [0.0, 1.5, -1.0]; f64 => [0.0, 1.5, -1.0];
    bool => [false, true];
    char => ['a', 'é'];
    String => [String::new(), "a".to_string()];
    () => [()];
}

impl<T: Vals> Vals for Option<T> {
    fn vals() -> Vec<Self> {
        let mut v = vec![None];
        v.extend(T::vals().into_iter().map(Some));
        v
    }
}
impl<T: Vals> Vals for Box<T> {
    fn vals() -> Vec<Self> {
        T::vals().into_iter().map(Box::new).collect()
    }
}
impl<T: Vals> Vals for std::rc::Rc<T> {
    fn vals() -> Vec<Self> {
        T::vals().into_iter().map(std::rc::Rc::new).collect()
    }
}
impl<T: Vals> Vals for std::sync::Arc<T> {
    fn vals() -> Vec<Self> {
        T::vals().into_iter().map(std::sync::Arc::new).collect()
    }
}
impl<T: Vals> Vals for Vec<T> {
    fn vals() -> Vec<Self> {
        let t = T::vals();
        let mut v = vec![vec![]];
        for x in &t {
            v.push(vec![x.clone()]);
        }
        if let (Some(a), Some(b)) = (t.first(), t.last()) {
            v.push(vec![a.clone(), b.clone()]);
        }
        v
    }
}
impl<T: Vals, const N: usize> Vals for [T; N] {
    fn vals() -> Vec<Self> {
        let t = T::vals();
        t.iter()
            .map(|x| std::array::from_fn(|_| x.clone()))
            .chain(if N >= 2 && t.len() >= 2 {
                Some(std::array::from_fn(|i| t[i % t.len()].clone()))
            } else {
                None
            })
            .collect()
    }
}
impl<K: Vals + Ord, V: Vals> Vals for BTreeMap<K, V> {
    fn vals() -> Vec<Self> {
        let (k, v) = (K::vals(), V::vals());
        let mut out = vec![BTreeMap::new()];
        for (i, key) in k.iter().enumerate() {
            let mut m = BTreeMap::new();
            m.insert(key.clone(), v[i % v.len()].clone());
            out.push(m);
        }
        out
    }
}
impl<K: Vals + std::hash::Hash + Eq, V: Vals> Vals for HashMap<K, V> {
    fn vals() -> Vec<Self> {
        let (k, v) = (K::vals(), V::vals());
        let mut out = vec![HashMap::new()];
        for (i, key) in k.iter().enumerate() {
            let mut m = HashMap::new();
            m.insert(key.clone(), v[i % v.len()].clone());
            out.push(m);
        }
        out
    }
}
impl<T: Vals + Ord> Vals for BTreeSet<T> {
    fn vals() -> Vec<Self> {
        let t = T::vals();
        let mut out = vec![BTreeSet::new()];
        for x in &t {
            out.push([x.clone()].into_iter().collect());
        }
        out.push(t.into_iter().collect());
        out
    }
}
impl<T: Vals + std::hash::Hash + Eq> Vals for HashSet<T> {
    fn vals() -> Vec<Self> {
        let t = T::vals();
        let mut out = vec![HashSet::new()];
        for x in &t {
            out.push([x.clone()].into_iter().collect());
        }
        out
    }
}

macro_rules! tuple_vals {
    ($($n:ident : $i:tt),*) => {
        impl<$($n: Vals),*> Vals for ($($n,)*) {
            fn vals() -> Vec<Self> {
                $( #[allow(non_snake_case)] let $n = <$n as Vals>::vals(); )*
                mixed(&[$($n.len()),*], 16).into_iter().map(|ix| ($($n[ix[$i]].clone(),)*)).collect()
            }
        }
    };
}
tuple_vals!(A: 0);
tuple_vals!(A: 0, B: 1);
tuple_vals!(A: 0, B: 1, C: 2);
tuple_vals!(A: 0, B: 1, C: 2, D: 3);
