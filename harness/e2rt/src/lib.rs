//! Run-time support linked into generated shard crates (E2).
//!
//! A shard's `main` calls `Ctx::from_args()`, then one `run` function per case, then
//! `Ctx::finish()`, which prints one JSON report (same shape as the E3 reports).

use std::{
    collections::{BTreeMap, BTreeSet, HashMap},
    panic::{catch_unwind, AssertUnwindSafe},
};

use serde::{de::DeserializeOwned, Serialize};
use serde_json::{json, Value};
pub use tsmodel;
use tsmodel::{Env, Ty, WitnessCfg, WitnessStats};

pub mod vals;
pub use vals::{mixed, Vals};

pub const BUILTIN: &[&str] = &["Array", "Record"];

#[derive(Default)]
pub struct Report {
    pub evaluations: u64,
    pub counters: BTreeMap<String, u64>,
    pub violations: BTreeMap<String, (u64, Vec<Value>)>,
    pub samples: Vec<Value>,
    pub distinct: BTreeSet<String>,
    pub machinery_errors: Vec<String>,
}

pub struct Ctx {
    pub prop: String,
    pub rep: Report,
    // current case
    case_id: String,
    case_class: Value,
    case_src: String,
    env: Option<Env>,
    pub strings: Vec<String>,
    slice: (usize, usize),
    case_no: usize,
}

pub fn guarded<T>(f: impl FnOnce() -> T) -> Result<T, String> {
    catch_unwind(AssertUnwindSafe(f)).map_err(|p| {
        let msg = p
            .downcast_ref::<String>()
            .cloned()
            .or_else(|| p.downcast_ref::<&str>().map(|s| s.to_string()))
            .unwrap_or_else(|| "<non-string panic>".into());
        format!("PANIC: {msg}")
    })
}

fn hash64(s: &str) -> String {
    use std::hash::{Hash, Hasher};
    let mut h = std::collections::hash_map::DefaultHasher::new();
    s.hash(&mut h);
    format!("{:016x}", h.finish())
}

impl Ctx {
    pub fn from_args() -> Ctx {
        std::panic::set_hook(Box::new(|_| {}));
        let args: Vec<String> = std::env::args().collect();
        let get = |k: &str| {
            args.iter()
                .position(|a| a == k)
                .and_then(|i| args.get(i + 1).cloned())
        };
        let slice = get("--slice")
            .map(|s| {
                let (a, b) = s.split_once('/').unwrap();
                (a.parse().unwrap(), b.parse().unwrap())
            })
            .unwrap_or((0, 1));
        // exports of corpus types (export_to_string only computes paths) must not depend on the caller's env
        std::env::remove_var("TS_RS_EXPORT_DIR");
        Ctx {
            prop: get("--prop").unwrap_or_else(|| "C01".into()),
            rep: Report::default(),
            case_id: String::new(),
            case_class: Value::Null,
            case_src: String::new(),
            env: None,
            strings: vec![],
            slice,
            case_no: 0,
        }
    }

    pub fn count(&mut self, k: &str, n: u64) {
        *self.rep.counters.entry(k.into()).or_default() += n;
    }

    /// The oracle could not evaluate a generated type. A reference with the wrong number of type
    /// arguments or to a name no declaration binds is a fact about the generated TypeScript (ill-formed),
    /// not a gap of the oracle: it counts as a violation; anything else is a machinery error.
    fn oracle_error(&mut self, check: &str, e: &tsmodel::Unsupported, context: String) {
        let ill_formed = e.0.starts_with("too many type arguments") || e.0.starts_with("missing type argument") || e.0.starts_with("unbound type name");
        if ill_formed {
            self.violation("generated-type-is-ill-formed", json!({"while_checking": check, "problem": e.0, "context": context}));
        } else {
            self.count("oracle_unknown_construct", 1);
            self.rep.machinery_errors.push(format!("{}: {check}: {e:?} {context}", self.case_id));
        }
    }

    pub fn violation(&mut self, check: &str, detail: Value) {
        let mut class = self.case_class.clone();
        class["check"] = json!(check);
        let mut detail = detail;
        detail["case"] = json!(self.case_id);
        detail["source"] = json!(self.case_src);
        let e = self
            .rep
            .violations
            .entry(class.to_string())
            .or_insert((0, vec![]));
        e.0 += 1;
        if e.1.len() < 3 {
            e.1.push(detail);
        }
    }

    /// Run one case. `decls` are the declarations (as printed by `decl()`) of every user type in
    /// scope; they form the environment in which references are resolved.
    pub fn case(
        &mut self,
        id: &str,
        class: &str,
        src: &str,
        decls: &dyn Fn() -> Vec<String>,
        body: &dyn Fn(&mut Ctx),
    ) {
        self.case_no += 1;
        if self.case_no % self.slice.1 != self.slice.0 {
            return;
        }
        self.case_id = id.to_owned();
        self.case_class = serde_json::from_str(class).unwrap_or_else(|_| json!({"class": class}));
        self.case_src = src.to_owned();
        self.strings = vec!["".into(), "a".into()];
        self.rep.distinct.insert(hash64(&format!("{class}|{src}")));
        self.count("cases", 1);
        // environment
        self.env = None;
        let first_decls: Vec<String>;
        match guarded(decls) {
            Err(p) => {
                self.violation("declaration-panics", json!({"panic": p}));
                return;
            }
            Ok(ds) => {
                first_decls = ds.clone();
                let mut env = Env::new();
                for d in ds {
                    match tsmodel::parse_decl(&d) {
                        Ok(pd) => {
                            env.insert(pd.name.clone(), pd);
                        }
                        Err(e) => {
                            self.violation(
                                "declaration-does-not-parse",
                                json!({"decl": d, "error": format!("{e:?}")}),
                            );
                            return;
                        }
                    }
                }
                self.env = Some(env);
            }
        }
        if let Err(p) = guarded(|| body(self)) {
            self.violation("binding-function-panics", json!({"panic": p}));
        }
        // a declaration is a function of the type alone: asked again after everything the body asked of
        // other instantiations, it is the same text
        match guarded(decls) {
            Ok(again) if again == first_decls => {}
            Ok(again) => {
                let diff: Vec<_> = first_decls.iter().zip(again.iter()).filter(|(a, b)| a != b).take(2).collect();
                self.violation("declaration-differs-when-asked-again", json!({"first_then_again": diff}));
            }
            Err(p) => self.violation("declaration-panics", json!({"panic": p, "when": "asked again"})),
        }
        if self.rep.samples.len() < 5 && self.case_no % 37 == 1 {
            self.rep
                .samples
                .push(json!({"case": id, "class": self.case_class, "source": src}));
        }
    }

    fn env(&self) -> Env {
        self.env.clone().unwrap_or_default()
    }

    fn wcfg(&self) -> WitnessCfg {
        WitnessCfg {
            strings: self.strings.clone(),
            ..WitnessCfg::default()
        }
    }

    /// All value-level checks for one Rust type, selected by `--prop`.
    pub fn check_type<T>(&mut self, label: &str)
    where
        T: ts_rs::TS + Serialize + DeserializeOwned + Vals + 'static,
        T::WithoutGenerics: 'static,
    {
        match self.prop.as_str() {
            "C01" => self.c01::<T>(label),
            "C02" => self.c02::<T>(label),
            "C03" => self.c03::<T>(label),
            "C04" => self.c04::<T>(label),
            _ => {}
        }
    }

    fn types_of<T: ts_rs::TS>(&mut self, label: &str) -> Option<Vec<(&'static str, Ty)>> {
        let mut out = vec![];
        for (what, f) in [
            ("name", T::name as fn() -> String),
            ("inline", T::inline as fn() -> String),
        ] {
            match guarded(f) {
                Err(p) => {
                    // wrappers / tuples document that they cannot be inlined
                    if what == "inline" && (p.contains("cannot be inlined")) {
                        self.count("inline_not_available", 1);
                        continue;
                    }
                    self.violation("binding-function-panics", json!({"type": label, "function": what, "panic": p}));
                    return None;
                }
                Ok(s) => match tsmodel::parse_type(&s) {
                    Ok(t) => out.push((what, t)),
                    Err(e) => {
                        self.violation(
                            "type-expression-does-not-parse",
                            json!({"type": label, "function": what, "text": s, "error": format!("{e:?}")}),
                        );
                        return None;
                    }
                },
            }
        }
        Some(out)
    }

    pub fn c01<T>(&mut self, label: &str)
    where
        T: ts_rs::TS + Serialize + Vals + 'static,
    {
        let env = self.env();
        let Some(tys) = self.types_of::<T>(label) else { return };
        let vals = T::vals();
        self.count("types", 1);
        self.count("values", vals.len() as u64);
        for v in &vals {
            let j = match serde_json::to_value(v) {
                Ok(j) => j,
                Err(_) => {
                    self.count("serde_refuses_to_serialize_value", 1);
                    continue;
                }
            };
            for (what, ty) in &tys {
                self.rep.evaluations += 1;
                match tsmodel::member(&env, ty, &j) {
                    Ok(true) => {}
                    Ok(false) => self.violation(
                        "serialized-value-not-in-declared-type",
                        json!({"type": label, "via": what, "json": j, "ts": T::name(), "decl": guarded(T::decl).ok()}),
                    ),
                    Err(e) => self.oracle_error(label, &e, String::new()),
                }
            }
        }
    }

    pub fn c02<T>(&mut self, label: &str)
    where
        T: ts_rs::TS + Serialize + DeserializeOwned + Vals + 'static,
    {
        let env = self.env();
        let Some(tys) = self.types_of::<T>(label) else { return };
        let ty = &tys[0].1;
        let vals = T::vals();
        // precondition of the property: serde round-trips its own output
        let mut samples = vec![];
        for v in &vals {
            match serde_json::to_value(v) {
                Ok(j) => {
                    if serde_json::from_value::<T>(j.clone()).is_err() {
                        self.count("types_excluded_serde_does_not_roundtrip", 1);
                        return;
                    }
                    samples.push(j);
                }
                Err(_) => {
                    self.count("types_excluded_serde_does_not_roundtrip", 1);
                    return;
                }
            }
        }
        self.count("types", 1);
        let mut st = WitnessStats::default();
        let mut cands = match tsmodel::witnesses(&env, ty, &self.wcfg(), &mut st) {
            Ok(w) => w,
            Err(e) => {
                self.oracle_error(label, &e, String::new());
                return;
            }
        };
        self.count("witnesses", cands.len() as u64);
        self.count("witness_products_capped", st.capped_products as u64);
        // near-miss mutants of real samples that still inhabit the type
        let mut lits = BTreeSet::new();
        tsmodel::literals_of(&env, ty, &mut lits, 3);
        let alts: Vec<String> = lits.into_iter().take(8).collect();
        let mut n_mut = 0u64;
        for s in samples.iter().take(12) {
            // types holding a `char` only take one-character strings (the property says so)
            let one_char = self.strings.iter().all(|s| s.chars().count() == 1);
            let salts: Vec<String> = if one_char {
                alts.iter().filter(|a| a.chars().count() == 1).cloned().collect()
            } else {
                alts.clone()
            };
            for m in tsmodel::mutants2(s, &alts, &salts) {
                if matches!(tsmodel::member(&env, ty, &m), Ok(true)) {
                    n_mut += 1;
                    cands.push(m);
                }
            }
        }
        self.count("inhabiting_mutants", n_mut);
        let mut seen = BTreeSet::new();
        for w in cands {
            if !seen.insert(w.to_string()) {
                continue;
            }
            self.rep.evaluations += 1;
            match serde_json::from_value::<T>(w.clone()) {
                Err(e) => self.violation(
                    "inhabitant-of-declared-type-rejected-by-deserialize",
                    json!({"type": label, "json": w, "ts": T::name(), "decl": guarded(T::decl).ok(), "serde_error": e.to_string()}),
                ),
                Ok(x) => {
                    if let Ok(j) = serde_json::to_value(&x) {
                        if matches!(tsmodel::member(&env, ty, &j), Ok(false)) {
                            self.violation(
                                "reserialized-value-not-in-declared-type",
                                json!({"type": label, "input": w, "reserialized": j}),
                            );
                        }
                    }
                }
            }
        }
    }

    pub fn c03<T>(&mut self, label: &str)
    where
        T: ts_rs::TS + 'static,
        T::WithoutGenerics: 'static,
    {
        let decl_s = match guarded(T::decl) {
            Ok(d) => d,
            Err(p) => {
                if p.contains("cannot be declared") {
                    return;
                }
                self.violation("binding-function-panics", json!({"type": label, "function": "decl", "panic": p}));
                return;
            }
        };
        let d = match tsmodel::parse_decl(&decl_s) {
            Ok(d) => d,
            Err(_) => return, // C04's business
        };
        self.count("types", 1);
        self.rep.evaluations += 1;
        let mut free: BTreeSet<String> = tsmodel::decl_free_names(&d);
        for b in BUILTIN {
            free.remove(*b);
        }
        let own = T::ident();
        let deps: BTreeSet<String> = <T::WithoutGenerics as ts_rs::TS>::dependencies()
            .into_iter()
            .map(|d| d.ts_name)
            .filter(|n| *n != own)
            .collect();
        if deps != free {
            self.violation(
                "dependencies-differ-from-free-names",
                json!({"type": label, "decl": decl_s, "free_names": free, "dependencies": deps}),
            );
        }
        match guarded(|| T::export_to_string()) {
            Ok(Ok(text)) => {
                if let Ok(m) = tsmodel::parse_module(&text) {
                    let mut imported = vec![];
                    for i in &m.imports {
                        imported.extend(i.names.iter().cloned());
                    }
                    let set: BTreeSet<String> = imported.iter().cloned().collect();
                    if set.len() != imported.len() || set != free {
                        self.violation(
                            "imports-differ-from-free-names",
                            json!({"type": label, "text": text, "free_names": free, "imported": imported}),
                        );
                    }
                    self.count("import_statements", m.imports.len() as u64);
                }
            }
            Ok(Err(e)) => self.violation("export-to-string-fails", json!({"type": label, "error": format!("{e:?}")})),
            Err(p) => self.violation("binding-function-panics", json!({"type": label, "function": "export_to_string", "panic": p})),
        }
    }

    pub fn c04<T>(&mut self, label: &str)
    where
        T: ts_rs::TS + 'static,
    {
        let text = match guarded(|| T::export_to_string()) {
            Ok(Ok(t)) => t,
            Ok(Err(e)) => {
                self.violation("export-to-string-fails", json!({"type": label, "error": format!("{e:?}")}));
                return;
            }
            Err(p) => {
                self.violation("binding-function-panics", json!({"type": label, "function": "export_to_string", "panic": p}));
                return;
            }
        };
        self.count("files", 1);
        self.rep.evaluations += 1;
        check_module_text(self, label, &text, &[T::ident()]);
    }

    /// C14 / C07: two type expressions denote the same set of JSON values in the case's environment.
    pub fn check_equiv(&mut self, check: &str, left: &dyn Fn() -> String, right: &dyn Fn() -> String) {
        let env = self.env();
        let (l, r) = match (guarded(left), guarded(right)) {
            (Ok(l), Ok(r)) => (l, r),
            (Err(p), _) | (_, Err(p)) => {
                self.violation("binding-function-panics", json!({"check": check, "panic": p}));
                return;
            }
        };
        self.rep.evaluations += 1;
        let (lt, rt) = match (tsmodel::parse_type(&l), tsmodel::parse_type(&r)) {
            (Ok(a), Ok(b)) => (a, b),
            (a, b) => {
                self.violation(
                    "type-expression-does-not-parse",
                    json!({"check": check, "left": l, "right": r, "errors": format!("{:?} {:?}", a.err(), b.err())}),
                );
                return;
            }
        };
        let cfg = self.wcfg();
        match tsmodel::distinguish(&env, &lt, &env, &rt, &cfg) {
            Ok(None) => {
                let n = tsmodel::witness_count(&env, &lt, &cfg).unwrap_or(0);
                self.count("equivalences_checked", 1);
                self.count("witnesses_compared", n as u64);
                if n == 0 {
                    self.count("equivalences_with_no_witness", 1);
                }
            }
            Ok(Some(d)) => self.violation(
                check,
                json!({"left": l, "right": r, "distinguishing_value": d.value, "in_left": d.in_left, "in_right": d.in_right}),
            ),
            Err(e) => self.oracle_error(check, &e, format!("({l} / {r})")),
        }
    }

    pub fn check_same_string(&mut self, check: &str, left: &dyn Fn() -> String, right: &dyn Fn() -> String) {
        self.rep.evaluations += 1;
        match (guarded(left), guarded(right)) {
            (Ok(l), Ok(r)) => {
                if l != r {
                    self.violation(check, json!({"left": l, "right": r}));
                } else {
                    self.count("identical_strings", 1);
                }
            }
            (Err(p), _) | (_, Err(p)) => self.violation("binding-function-panics", json!({"check": check, "panic": p})),
        }
    }

    pub fn finish(self) -> ! {
        let viol: Vec<Value> = self
            .rep
            .violations
            .iter()
            .map(|(c, (n, ex))| json!({"class": serde_json::from_str::<Value>(c).unwrap(), "count": n, "examples": ex}))
            .collect();
        let mut me = self.rep.machinery_errors.clone();
        me.truncate(10);
        let out = json!({
            "evaluations": self.rep.evaluations,
            "states": 0, "transitions": 0,
            "counters": self.rep.counters,
            "violations": viol,
            "samples": self.rep.samples,
            "distinct_hashes": self.rep.distinct.iter().collect::<Vec<_>>(),
            "machinery_errors": me,
        });
        println!("{out}");
        std::process::exit(0);
    }
}

/// C04: the text is a well-formed module holding exactly `expected_names`.
pub fn check_module_text(ctx: &mut Ctx, label: &str, text: &str, expected_names: &[String]) {
    let note = "// This file was generated by [ts-rs](https://github.com/Aleph-Alpha/ts-rs). Do not edit this file manually.\n";
    if !text.starts_with(note) {
        ctx.violation("notice-missing", json!({"type": label, "text": text}));
    }
    if !text.ends_with('\n') {
        ctx.violation("no-trailing-newline", json!({"type": label, "text": text}));
    }
    match tsmodel::parse_module(text) {
        Err(e) => ctx.violation("file-does-not-parse", json!({"type": label, "text": text, "error": format!("{e:?}")})),
        Ok(m) => {
            if !m.layout_errors.is_empty() {
                ctx.violation("module-layout", json!({"type": label, "text": text, "problems": m.layout_errors}));
            }
            let names: Vec<String> = m.decls.iter().map(|d| d.name.clone()).collect();
            if names != expected_names {
                ctx.violation(
                    "declared-names-differ-from-exported-types",
                    json!({"type": label, "text": text, "declared": names, "expected": expected_names}),
                );
            }
        }
    }
}

/// Property keys and string literals of a parsed type, for string-content checks.
pub fn keys_and_literals(t: &Ty, keys: &mut Vec<String>, lits: &mut Vec<String>) {
    match t {
        Ty::Lit(l) => lits.push(l.clone()),
        Ty::Array(e) => keys_and_literals(e, keys, lits),
        Ty::Tuple(v) | Ty::Union(v) | Ty::Inter(v) => v.iter().for_each(|x| keys_and_literals(x, keys, lits)),
        Ty::Object(o) => {
            for p in &o.props {
                keys.push(p.key.clone());
                keys_and_literals(&p.ty, keys, lits);
            }
            for (k, _, v) in &o.index {
                keys_and_literals(k, keys, lits);
                keys_and_literals(v, keys, lits);
            }
        }
        Ty::Ref(_, a) => a.iter().for_each(|x| keys_and_literals(x, keys, lits)),
        _ => {}
    }
}

pub type Map<K, V> = HashMap<K, V>;

// ---- C12: library types -----------------------------------------------------------------------------

impl Ctx {
    /// `to_value(v)` inhabits `name()` and `inline()` for each given value.
    pub fn c12_values<T: ts_rs::TS + Serialize + 'static>(&mut self, label: &str, vals: Vec<T>) {
        let env = self.env();
        let Some(tys) = self.types_of::<T>(label) else { return };
        self.count("types", 1);
        for v in &vals {
            let j = match serde_json::to_value(v) {
                Ok(j) => j,
                Err(_) => {
                    self.count("serde_refuses_to_serialize_value", 1);
                    continue;
                }
            };
            for (what, ty) in &tys {
                self.rep.evaluations += 1;
                match tsmodel::member(&env, ty, &j) {
                    Ok(true) => self.count("values_in_type", 1),
                    Ok(false) => self.violation(
                        "serialized-library-value-not-in-reported-type",
                        json!({"type": label, "via": what, "json": j, "ts": guarded(T::name).ok()}),
                    ),
                    Err(e) => self.oracle_error(label, &e, String::new()),
                }
            }
        }
    }

    /// "nothing of a different shape": every witness of the reported type deserializes.
    pub fn c12_witnesses<T: ts_rs::TS + DeserializeOwned + 'static>(&mut self, label: &str) {
        let env = self.env();
        let Some(tys) = self.types_of::<T>(label) else { return };
        let mut st = WitnessStats::default();
        let ws = match tsmodel::witnesses(&env, &tys[0].1, &self.wcfg(), &mut st) {
            Ok(w) => w,
            Err(e) => {
                self.oracle_error(label, &e, String::new());
                return;
            }
        };
        self.count("witnesses", ws.len() as u64);
        for w in ws {
            self.rep.evaluations += 1;
            if let Err(e) = serde_json::from_value::<T>(w.clone()) {
                self.violation(
                    "inhabitant-of-reported-type-rejected-by-deserialize",
                    json!({"type": label, "json": w, "ts": guarded(T::name).ok(), "serde_error": e.to_string()}),
                );
            }
        }
    }

    /// For types without a serde impl: the reported type has the shape the property fixes.
    /// `expect` is a TypeScript type expression; equality is decided on the parsed types.
    pub fn c12_shape<T: ts_rs::TS + 'static>(&mut self, label: &str, expect: &str) {
        self.rep.evaluations += 1;
        self.count("shape_checks", 1);
        match guarded(T::name) {
            Err(p) => self.violation("binding-function-panics", json!({"type": label, "panic": p})),
            Ok(n) => match (tsmodel::parse_type(&n), tsmodel::parse_type(expect)) {
                (Ok(a), Ok(b)) => {
                    if a != b {
                        self.violation("library-type-has-unexpected-shape", json!({"type": label, "reported": n, "expected": expect}));
                    }
                }
                (a, b) => self.violation("type-expression-does-not-parse", json!({"type": label, "reported": n, "expected": expect, "errors": format!("{:?} {:?}", a.err(), b.err())})),
            },
        }
    }

    /// A derived struct with one field of the library type depends on exactly `expect`.
    pub fn c12_deps<W: ts_rs::TS + 'static>(&mut self, label: &str, expect: &[&str]) {
        self.rep.evaluations += 1;
        self.count("dependency_checks", 1);
        let own = W::ident();
        match guarded(|| W::dependencies()) {
            Err(p) => self.violation("binding-function-panics", json!({"type": label, "function": "dependencies", "panic": p})),
            Ok(d) => {
                let got: BTreeSet<String> = d.into_iter().map(|d| d.ts_name).filter(|n| *n != own).collect();
                let want: BTreeSet<String> = expect.iter().map(|s| s.to_string()).collect();
                if got != want {
                    self.violation("library-type-dependencies-differ-from-its-arguments", json!({"type": label, "dependencies": got, "expected": want}));
                }
            }
        }
    }
}

// ---- C07: generic declarations -------------------------------------------------------------------------

impl Ctx {
    /// The declaration parses, is generic over exactly `params` (name, default as TypeScript text)
    /// and mentions no name that is neither a parameter, nor itself, nor a declared type.
    pub fn check_generic_decl(&mut self, label: &str, decl: &dyn Fn() -> String, params: &[(&str, Option<&str>)]) {
        self.rep.evaluations += 1;
        let text = match guarded(decl) {
            Ok(t) => t,
            Err(p) => {
                self.violation("declaration-panics", json!({"type": label, "panic": p}));
                return;
            }
        };
        let d = match tsmodel::parse_decl(&text) {
            Ok(d) => d,
            Err(e) => {
                self.violation("declaration-does-not-parse", json!({"type": label, "decl": text, "error": format!("{e:?}")}));
                return;
            }
        };
        let mut want = vec![];
        for (n, def) in params {
            let def = match def {
                None => None,
                Some(t) => match tsmodel::parse_type(t) {
                    Ok(t) => Some(t),
                    Err(e) => {
                        self.rep.machinery_errors.push(format!("{}: expected default {t}: {e:?}", self.case_id));
                        return;
                    }
                },
            };
            want.push((n.to_string(), def));
        }
        if d.params != want {
            self.violation(
                "declared-type-parameters-differ",
                json!({"type": label, "decl": text, "declared": format!("{:?}", d.params), "expected": format!("{want:?}")}),
            );
        }
        let env = self.env();
        let stray: Vec<String> = tsmodel::decl_free_names(&d)
            .into_iter()
            .filter(|n| !BUILTIN.contains(&n.as_str()) && !env.contains_key(n))
            .collect();
        if !stray.is_empty() {
            self.violation("declaration-mentions-unbound-name", json!({"type": label, "decl": text, "unbound": stray}));
        }
        self.count("generic_declarations", 1);
    }

    pub fn check_all_same(&mut self, check: &str, items: &dyn Fn() -> Vec<(String, String)>) {
        self.rep.evaluations += 1;
        match guarded(items) {
            Err(p) => self.violation("binding-function-panics", json!({"check": check, "panic": p})),
            Ok(v) => {
                self.count("instantiations_compared", v.len() as u64);
                if let Some((l0, s0)) = v.first() {
                    for (l, s) in &v[1..] {
                        if s != s0 {
                            self.violation(check, json!({"first": {"at": l0, "text": s0}, "other": {"at": l, "text": s}}));
                            return;
                        }
                    }
                }
            }
        }
    }
}

// ---- C04 (ii): string contents; C15 (ii): doc comments in exported files -----------------------------

fn doc_lines_present(block: &str, texts: &[&str]) -> Vec<String> {
    let mut missing = vec![];
    for t in texts {
        for line in t.lines() {
            let l = line.trim();
            if l.is_empty() {
                continue;
            }
            let esc = l.replace("*/", "*\\/");
            if !(block.contains(l) || block.contains(&esc)) {
                missing.push(l.to_string());
            }
        }
    }
    missing
}

impl Ctx {
    /// The exported text is a well-formed module, and the *values* of its property keys and string
    /// literal types (as read by swc) include exactly the expected Rust-side strings.
    pub fn c04_strings<T: ts_rs::TS + 'static>(&mut self, label: &str, keys: &[&str], lits: &[&str]) {
        let text = match guarded(|| T::export_to_string()) {
            Ok(Ok(t)) => t,
            other => {
                self.violation("export-to-string-fails", json!({"type": label, "result": format!("{other:?}")}));
                return;
            }
        };
        self.rep.evaluations += 1;
        self.count("files", 1);
        let before = self.rep.violations.len();
        check_module_text(self, label, &text, &[T::ident()]);
        if self.rep.violations.len() != before {
            return;
        }
        if let Ok(m) = tsmodel::parse_module(&text) {
            let (mut ks, mut ls) = (vec![], vec![]);
            for d in &m.decls {
                keys_and_literals(&d.body, &mut ks, &mut ls);
            }
            for k in keys {
                if !ks.iter().any(|x| x == k) {
                    self.violation("property-key-value-differs-from-rust-string", json!({"type": label, "expected_key": k, "keys_read_by_parser": ks, "text": text}));
                }
            }
            for l in lits {
                if !ls.iter().any(|x| x == l) {
                    self.violation("literal-value-differs-from-rust-string", json!({"type": label, "expected_literal": l, "literals_read_by_parser": ls, "text": text}));
                }
            }
        }
    }

    /// Documentation placement and containment in the exported file of `T`, alone and merged with
    /// two neighbours; `Plain` is the same type without any documentation.
    /// position: "type" | "field:<name>" | "dropped"
    pub fn c15_docs<T: ts_rs::TS + 'static, Plain: ts_rs::TS + 'static>(&mut self, label: &str, position: &str, texts: &[&str]) {
        let text = match guarded(|| T::export_to_string()) {
            Ok(Ok(t)) => t,
            other => {
                self.violation("export-to-string-fails", json!({"type": label, "result": format!("{other:?}")}));
                return;
            }
        };
        let plain = match guarded(|| Plain::export_to_string()) {
            Ok(Ok(t)) => t,
            other => {
                self.violation("export-to-string-fails", json!({"type": label, "result": format!("{other:?}")}));
                return;
            }
        };
        // neighbours sorting before and after `T` (named "Mid")
        let note = ts_rs::__verif::NOTE;
        let first = format!("{note}\nexport type Aaa = number;\n");
        let last = format!("{note}\nexport type Zzz = string;\n");
        let ident0 = T::ident();
        let item = |n: &str, t: &String| (n.to_string(), t.clone());
        let merged_orders: Vec<(&str, Result<String, String>)> = vec![
            ("first,T,last", guarded(|| ts_rs::__verif::merge(&[item("Aaa", &first), item(&ident0, &text), item("Zzz", &last)]))),
            ("T,last,first", guarded(|| ts_rs::__verif::merge(&[item(&ident0, &text), item("Zzz", &last), item("Aaa", &first)]))),
            ("last,first,T", guarded(|| ts_rs::__verif::merge(&[item("Zzz", &last), item("Aaa", &first), item(&ident0, &text)]))),
            ("T,first", guarded(|| ts_rs::__verif::merge(&[item(&ident0, &text), item("Aaa", &first)]))),
        ];
        let ident = T::ident();
        let plain_decl = tsmodel::parse_module(&plain).ok().and_then(|m| m.decls.into_iter().next());
        let mut files: Vec<(String, String, Vec<String>)> = vec![("alone".into(), text.clone(), vec![ident.clone()])];
        for (o, r) in merged_orders {
            match r {
                Ok(t) => files.push((format!("merged:{o}"), t, if o == "T,first" { vec!["Aaa".into(), ident.clone()] } else { vec!["Aaa".into(), ident.clone(), "Zzz".into()] })),
                Err(p) => self.violation("merge-panics", json!({"type": label, "order": o, "panic": p})),
            }
        }
        for (how, file, names) in files {
            self.rep.evaluations += 1;
            let merged = how != "alone";
            let m = match tsmodel::parse_module(&file) {
                Ok(m) => m,
                Err(e) => {
                    self.violation(if merged { "merged-file-does-not-parse" } else { "file-does-not-parse" }, json!({"type": label, "how": how, "text": file, "error": format!("{e:?}")}));
                    continue;
                }
            };
            let declared: Vec<String> = m.decls.iter().map(|d| d.name.clone()).collect();
            if !m.layout_errors.is_empty() || declared != names {
                self.violation(
                    if merged { "documentation-read-as-code-after-merge" } else { "documentation-read-as-code" },
                    json!({"type": label, "how": how, "text": file, "layout": m.layout_errors, "declared": declared, "expected": names}),
                );
                continue;
            }
            let d = m.decls.iter().find(|d| d.name == ident).unwrap();
            // (1) the documentation never alters the type
            if let Some(p) = &plain_decl {
                if d.body != p.body || d.params != p.params {
                    self.violation("documentation-changes-the-declared-type", json!({"type": label, "how": how, "text": file, "plain": plain}));
                }
            }
            // (3) placement
            let non_empty = texts.iter().any(|t| !t.trim().is_empty());
            let comments: Option<Vec<String>> = if position == "type" {
                Some(d.comments.clone())
            } else if let Some(f) = position.strip_prefix("field:") {
                find_prop(&d.body, f).map(|p| p.comments.clone())
            } else {
                None
            };
            if let Some(cs) = comments {
                if !texts.is_empty() {
                    if cs.len() != 1 {
                        self.violation(
                            if merged { "doc-comment-not-one-block-after-merge" } else { "doc-comment-not-one-block-before-its-item" },
                            json!({"type": label, "how": how, "position": position, "comments_found": cs, "text": file}),
                        );
                    } else if non_empty {
                        let missing = doc_lines_present(&cs[0], texts);
                        if !missing.is_empty() {
                            self.violation("doc-text-missing-from-comment", json!({"type": label, "how": how, "missing": missing, "comment": cs[0], "text": file}));
                        }
                    }
                }
            }
            self.count("files_checked", 1);
        }
    }
}

fn find_prop<'a>(t: &'a Ty, name: &str) -> Option<&'a tsmodel::Prop> {
    match t {
        Ty::Object(o) => o.props.iter().find(|p| p.key == name).or_else(|| o.props.iter().find_map(|p| find_prop(&p.ty, name))),
        Ty::Union(v) | Ty::Inter(v) | Ty::Tuple(v) => v.iter().find_map(|x| find_prop(x, name)),
        Ty::Array(e) => find_prop(e, name),
        _ => None,
    }
}
