fn main(){}
