//! E3 — export explorer. Every mode prints one JSON object on stdout.
mod bfs;
mod common;
mod corpus;
mod determ;
mod graph;
mod merge_mode;
mod paths_mode;
mod sched;

fn main() {
    let args: Vec<String> = std::env::args().skip(1).collect();
    common::silence_panics();
    let mode = args.first().cloned().unwrap_or_default();
    match mode.as_str() {
        "merge" => merge_mode::run(&args[1..]),
        "sched" => sched::run(&args[1..]),
        "bfs" => bfs::run(&args[1..]),
        "faults" => bfs::run_faults(&args[1..]),
        "replay" => bfs::replay(&args[1..]),
        "paths" => paths_mode::run(&args[1..]),
        "graph" => graph::run(&args[1..]),
        "determ" => determ::run(&args[1..]),
        "dump" => determ::dump(&args[1..]),
        other => {
            eprintln!("unknown mode {other:?}");
            std::process::exit(2);
        }
    }
}
