//! Fixed corpora of derived types used by the explorer modes.
#![allow(dead_code, non_camel_case_types)]

use std::collections::HashMap;

use ts_rs::TS;

use crate::{
    common::{place, TypeInfo},
    ti,
};

// =================================================================================================
// M — types that all live in one file (`shared/m.ts`), one per shortcut in the merge logic (C05)
// =================================================================================================
pub mod m {
    use super::*;

    #[derive(TS)]
    pub struct L1 {
        a: i32,
    }
    #[derive(TS)]
    #[ts(export_to = "L1.ts")]
    pub struct L1b {
        a: i32,
    }
    #[derive(TS)]
    pub struct L2 {
        a: i32,
    }
    #[derive(TS)]
    #[ts(export_to = "other/L3.ts")]
    pub struct L3 {
        a: i32,
    }

    #[derive(TS)]
    #[ts(export_to = "shared/m.ts")]
    pub struct Foo {
        a: i32,
    }

    /// Second type.
    /// Two doc lines.
    #[derive(TS)]
    #[ts(export_to = "shared/m.ts")]
    pub struct Foo2 {
        a: i32,
    }

    /** Block doc

    with an empty line */
    #[derive(TS)]
    #[ts(export_to = "shared/m.ts")]
    pub struct FooBar {
        a: i32,
    }

    /// The docs mention export type Zed = number; in passing.
    #[derive(TS)]
    #[ts(export_to = "shared/m.ts")]
    pub struct Baz {
        a: i32,
    }

    #[derive(TS)]
    #[ts(export_to = "shared/m.ts")]
    pub struct Qux {
        /// a field doc that says export type Zzz = number
        a: i32,
    }

    #[derive(TS)]
    #[ts(export_to = "shared/m.ts")]
    pub struct Quux {
        /// see export type Foo = { .. } and export type Imp1 for details
        a: i32,
        /** block doc

        export type Foo2 = never; */
        b: i32,
    }

    /// spells the shared file differently
    #[derive(TS)]
    #[ts(export_to = "shared/x/../m.ts")]
    pub struct Tail {
        /// first field
        a: i32,
        /// second field
        b: String,
    }

    #[derive(TS)]
    #[ts(export_to = "shared/m.ts")]
    pub struct Foo3<T> {
        t: T,
    }

    #[derive(TS)]
    #[ts(export_to = "shared/m.ts")]
    pub struct Fo<T> {
        t: T,
    }

    #[derive(TS)]
    #[ts(export_to = "shared/m.ts")]
    pub struct Fo2 {
        a: i32,
    }

    /// sorts before Imp1 but imports a name (`L1b`) that sorts after Imp1's (`L1`) from the same module
    #[derive(TS)]
    #[ts(export_to = "shared/m.ts")]
    pub struct Imp0 {
        l: L1b,
        m: L2,
    }

    #[derive(TS)]
    #[ts(export_to = "shared/m.ts")]
    pub struct Imp1 {
        l: L1,
    }

    #[derive(TS)]
    #[ts(export_to = "shared/m.ts")]
    pub struct Imp2 {
        l: L1,
        m: L2,
    }

    #[derive(TS)]
    #[ts(export_to = "shared/m.ts")]
    pub struct Imp3 {
        m: L3,
        o: Foo,
    }

    #[derive(TS)]
    #[ts(export_to = "shared/m.ts")]
    pub struct Imp4 {
        l: L1b,
    }

    pub fn types() -> Vec<TypeInfo> {
        vec![
            ti!(Foo, "plain"),
            ti!(Foo2, "doc-lines"),
            ti!(Imp0, "import"),
            ti!(Imp1, "import"),
            ti!(Imp2, "import"),
            ti!(Fo2, "plain", "suffix-of-generic-ident"),
            ti!(Fo<ts_rs::Dummy>, "generic", "generic-with-suffixed-sibling"),
            ti!(Tail, "multi-line"),
            ti!(Imp3, "import", "same-file-ref"),
            ti!(Imp4, "import"),
            ti!(Foo3<ts_rs::Dummy>, "generic"),
            ti!(Fo<L1>, "generic", "instantiated-with-type-from-another-file"),
            ti!(Fo<L3>, "generic", "instantiated-with-type-from-another-file"),
            ti!(FooBar, "doc-blank-line"),
            ti!(Baz, "doc-export-type-words"),
            ti!(Qux, "doc-export-type-words"),
            ti!(Quux, "doc-export-type-words", "doc-names-sibling-type", "doc-blank-line"),
        ]
    }
}

// =================================================================================================
// U — small universe with shared files and dependencies (C06, C17, C13)
// =================================================================================================
pub mod u {
    use super::*;

    #[derive(TS)]
    pub struct UL {
        z: i32,
    }
    #[derive(TS)]
    #[ts(export_to = "UL.ts")]
    pub struct UL2 {
        z: bool,
    }
    /// a second spelling of `s.ts`
    #[derive(TS)]
    #[ts(export_to = "d/../s.ts")]
    pub struct UH {
        l2: UL2,
    }
    /// Doc of UA.
    #[derive(TS)]
    #[ts(export_to = "s.ts")]
    pub struct UA {
        x: i32,
    }
    #[derive(TS)]
    #[ts(export_to = "s.ts")]
    pub struct UB {
        y: UL,
    }
    #[derive(TS)]
    #[ts(export_to = "s.ts")]
    pub struct UF {
        l: UL,
        a: Option<UA>,
    }
    /**
     * Block documentation of UG
     */
    #[derive(TS)]
    #[ts(export_to = "s.ts")]
    pub enum UG {
        /// variant doc
        One,
        Two { ul: UL },
    }
    #[derive(TS)]
    pub struct UC {
        a: UA,
    }
    #[derive(TS)]
    #[ts(export_to = "d/")]
    pub struct UD {
        b: UB,
        c: UC,
    }
    #[derive(TS)]
    pub struct UE<T = UA> {
        t: T,
    }
    /// placement decided at run time (fault injection: `..` escapes)
    #[derive(TS)]
    #[ts(export_to = place("UP"))]
    pub struct UP {
        p: i32,
    }
    #[derive(TS)]
    #[ts(export_to = "d/e/UN.ts")]
    pub struct UN {
        l: UL,
        p: Option<Box<UN>>,
    }

    pub struct U {
        pub info: TypeInfo,
        /// names of the types `export_all` must export (generator-side description)
        pub closure: &'static [&'static str],
        /// relative location below the export directory
        pub loc: &'static str,
    }

    pub fn types() -> Vec<U> {
        vec![
            U { info: ti!(UA), closure: &["UA"], loc: "s.ts" },
            U { info: ti!(UB), closure: &["UB", "UL"], loc: "s.ts" },
            U { info: ti!(UF), closure: &["UF", "UL", "UA"], loc: "s.ts" },
            U { info: ti!(UG), closure: &["UG", "UL"], loc: "s.ts" },
            U { info: ti!(UC), closure: &["UC", "UA"], loc: "UC.ts" },
            U { info: ti!(UD), closure: &["UD", "UB", "UC", "UL", "UA"], loc: "d/UD.ts" },
            U { info: ti!(UE<ts_rs::Dummy>), closure: &["UE", "UA"], loc: "UE.ts" },
            U { info: ti!(UE<UL>), closure: &["UE", "UA", "UL"], loc: "UE.ts" },
            U { info: ti!(UL), closure: &["UL"], loc: "UL.ts" },
            U { info: ti!(UL2), closure: &["UL2"], loc: "UL.ts" },
            U { info: ti!(UH), closure: &["UH", "UL2"], loc: "s.ts" },
            U { info: ti!(UN), closure: &["UN", "UL"], loc: "d/e/UN.ts" },
        ]
    }
    pub fn up() -> TypeInfo {
        ti!(UP)
    }
    pub fn non_exportable() -> Vec<TypeInfo> {
        vec![ti!(Vec<UA>), ti!(i32), ti!(Option<UC>), ti!((UA, UB))]
    }
}

// =================================================================================================
// G — dependency-graph corpus with run-time placements (C03b, C08b, C11, C13)
// =================================================================================================
pub mod g {
    use super::*;

    #[derive(TS)]
    #[ts(export_to = place("B"))]
    pub struct B {
        x: i32,
    }
    #[derive(TS)]
    #[ts(export_to = place("C"))]
    pub struct C {
        y: String,
    }
    #[derive(TS)]
    #[ts(export_to = place("B2"))]
    pub struct B2 {
        c: C,
    }
    #[derive(TS)]
    #[ts(export_to = place("G"))]
    pub struct G<T> {
        v: T,
    }
    /// generics whose parameter no field shows to the derive (skipped / overridden): the argument is
    /// reachable only through `visit_generics`
    #[derive(TS)]
    #[ts(export_to = place("GH"))]
    pub struct GH<T> {
        #[ts(skip)]
        m: std::marker::PhantomData<T>,
        x: i32,
    }
    #[derive(TS)]
    #[ts(export_to = place("GO"))]
    pub struct GO<T> {
        #[ts(type = "string")]
        m: Vec<T>,
        x: i32,
    }
    #[derive(TS)]
    #[ts(export_to = place("K"))]
    pub enum K {
        K1,
        K2,
    }

    macro_rules! root {
        ($(#[$m:meta])* struct $n:ident $($rest:tt)*) => {
            #[derive(TS)]
            #[ts(rename = "A", export_to = place("A"))]
            $(#[$m])*
            pub struct $n $($rest)*
        };
        ($(#[$m:meta])* enum $n:ident $($rest:tt)*) => {
            #[derive(TS)]
            #[ts(rename = "A", export_to = place("A"))]
            $(#[$m])*
            pub enum $n $($rest)*
        };
    }

    root!(struct RField { b: B });
    root!(struct RInline { #[ts(inline)] b: B2 });
    root!(struct RFlatten { #[ts(flatten)] b: B2, z: i32 });
    root!(struct ROpt { b: Option<B> });
    root!(struct RVec { b: Vec<B> });
    root!(struct RArr { b: [B; 2] });
    root!(struct RTup { b: (B, C) });
    root!(struct RMapV { m: HashMap<String, B> });
    root!(struct RMapK { m: HashMap<K, C> });
    root!(struct RBox { b: Box<B> });
    root!(struct RGenArg { g: G<B> });
    root!(struct RGenInline { #[ts(inline)] g: G<B> });
    root!(struct RGenFlatten { #[ts(flatten)] g: G<B>, z: i32 });
    root!(struct RGenNested { g: G<G<B>> });
    root!(struct RGenOpt { g: G<Option<B>> });
    root!(struct RGenVecInline { #[ts(inline)] g: Vec<G<B>> });
    root!(struct RDefault<T = B> { v: T });
    root!(struct RDefaultGen<T = G<C>> { v: T });
    root!(struct RFieldAs { #[ts(as = "B")] x: i32 });
    root!(#[ts(as = "B2")] struct RContainerAs { x: i32 });
    root!(enum RVariantAs { #[ts(as = "B")] V { x: i32 }, W });
    root!(struct RType { #[ts(type = "string")] b: B, c: C });
    root!(#[doc = " documented root"] struct RTag { b: B });
    root!(#[ts(tag = "t")] struct RTagged { b: B });
    root!(struct RNewtype(B););
    root!(struct RTuple(B, C););
    root!(struct RNewtypeInline(#[ts(inline)] B2););
    root!(struct RTupleInline(#[ts(inline)] B2, B););
    root!(struct RPair { b: B, #[ts(inline)] i: B2 });
    root!(struct RPairGen { b: G<B>, c: G<C> });
    root!(struct RSelf { next: Option<Box<RSelf>>, b: B });
    root!(struct RCyc1 { o: Option<Box<RCyc2>> });
    #[derive(TS)]
    #[ts(rename = "Y", export_to = place("Y"))]
    pub struct RCyc2 {
        r: Vec<RCyc1>,
        c: C,
    }
    // a container bound to the type parameter of an inlined / flattened generic; type aliases
    pub type BVec = Vec<B>;
    pub type CMap = HashMap<String, Option<C>>;
    root!(struct RGenInlineVec { #[ts(inline)] g: G<Vec<B>> });
    root!(struct RGenFlattenOpt { #[ts(flatten)] g: G<Option<B>>, z: i32 });
    root!(struct RGenInlineNestedGen { #[ts(inline)] g: G<G<Vec<C>>> });
    root!(struct RAlias { v: BVec, m: CMap });
    root!(struct RAliasAs { #[ts(as = "BVec")] x: i32, #[ts(as = "CMap")] y: i32 });
    root!(struct RAliasInline { #[ts(inline)] v: BVec });
    root!(enum EAlias { V(BVec), W { m: CMap } });
    // two dependencies that each have a dependency of their own (shared-file import unions)
    root!(struct RBoth { b: B, b2: B2, g: G<C> });
    // the same type used in two presentations inside one container
    root!(struct RInlineAndName { #[ts(inline)] a: B2, b: B2 });
    root!(struct RNameAndInline { b: B2, #[ts(inline)] a: B2 });
    root!(struct RFlattenAndName { #[ts(flatten)] a: B2, b: B2 });
    root!(struct RGenInlineAndName { #[ts(inline)] a: G<B>, b: G<B> });
    root!(struct RNameAndGenInline { b: G<B>, #[ts(inline)] a: G<B> });
    root!(struct RTupleInlineAndName(#[ts(inline)] B2, B2););
    root!(enum EInlineAndName { I(#[ts(inline)] B2), N(B2), S { #[ts(inline)] a: B2, b: B2 } });
    root!(struct RInlineSet { #[ts(inline)] s: std::collections::BTreeSet<B2>, #[ts(inline)] m: std::collections::BTreeMap<String, B2> });
    root!(struct RSetOfGen { s: std::collections::BTreeSet<G<B>>, r: std::ops::RangeInclusive<C> });
    root!(struct RSkip { #[ts(skip)] b: B, c: C });
    root!(struct ROptional { #[ts(optional)] b: Option<B> });

    // arguments of a generic that are reachable only through the parameter list, behind containers
    root!(struct RGenHidden { h: GH<B> });
    root!(struct RGenHiddenVec { h: GH<Vec<B>> });
    root!(struct RGenHiddenDeep { h: GH<Option<Box<C>>>, o: GO<(B, Vec<B2>)> });
    root!(struct RGenHiddenInline { #[ts(inline)] h: GH<Vec<B>>, o: GO<G<C>> });

    // enums: payload kinds under each representation
    root!(enum EExt { N(B), T(B, C), S { b: B2 }, U });
    root!(#[ts(tag = "t")] enum EInt { N(B), S { b: B2 }, U });
    root!(#[ts(tag = "t", content = "c")] enum EAdj { N(B), T(B, C), S { b: B2 }, U });
    root!(#[ts(untagged)] enum EUnt { N(B), T(B, C), S { b: B2 }, U });
    root!(enum EExtInl { N(#[ts(inline)] B2), S { #[ts(inline)] b: B2 } });
    root!(#[ts(tag = "t")] enum EIntInl { N(#[ts(inline)] B2), U });
    root!(#[ts(tag = "t", content = "c")] enum EAdjInl { N(#[ts(inline)] B2), U });
    root!(#[ts(untagged)] enum EUntInl { N(#[ts(inline)] B2), U });
    root!(enum EExtSkip { N(#[ts(skip)] B), M(C) });
    root!(#[ts(tag = "t")] enum EIntSkip { N(#[ts(skip)] B), M(C) });
    root!(#[ts(tag = "t", content = "c")] enum EAdjSkip { N(#[ts(skip)] B), M(C) });
    root!(enum EVarSkip { #[ts(skip)] N(B), M(C) });
    root!(enum EVarInline { #[ts(inline)] N(B2), M(C) });
    root!(enum EVarUntagged { M(C), #[ts(untagged)] N(B) });
    root!(#[ts(tag = "t")] enum EIntFlat { S { #[ts(flatten)] b: B2, z: i32 } });
    root!(enum EGen { N(G<B>), S { #[ts(inline)] g: G<C> } });

    pub struct Root {
        pub info: TypeInfo,
    }

    pub fn roots() -> Vec<TypeInfo> {
        vec![
            ti!(RField, "field"),
            ti!(RInline, "inline"),
            ti!(RFlatten, "flatten"),
            ti!(ROpt, "container"),
            ti!(RVec, "container"),
            ti!(RArr, "container"),
            ti!(RTup, "container"),
            ti!(RMapV, "container"),
            ti!(RMapK, "container", "map-key"),
            ti!(RBox, "container"),
            ti!(RGenArg, "generic-arg"),
            ti!(RGenInline, "generic-arg", "inline"),
            ti!(RGenFlatten, "generic-arg", "flatten"),
            ti!(RGenNested, "generic-arg"),
            ti!(RGenOpt, "generic-arg"),
            ti!(RGenVecInline, "generic-arg", "inline"),
            ti!(RDefault<ts_rs::Dummy>, "param-default"),
            ti!(RDefaultGen<ts_rs::Dummy>, "param-default", "generic-arg"),
            ti!(RFieldAs, "as"),
            ti!(RContainerAs, "as", "container-as"),
            ti!(RVariantAs, "as", "variant-as"),
            ti!(RType, "type-override"),
            ti!(RTag, "doc"),
            ti!(RTagged, "struct-tag"),
            ti!(RNewtype, "newtype"),
            ti!(RTuple, "tuple"),
            ti!(RNewtypeInline, "newtype", "inline"),
            ti!(RTupleInline, "tuple", "inline"),
            ti!(RPair, "field", "inline"),
            ti!(RPairGen, "generic-arg", "two-instantiations"),
            ti!(RSelf, "self-reference"),
            ti!(RCyc1, "cycle"),
            ti!(RGenInlineVec, "generic-arg", "inline", "container-bound-to-parameter"),
            ti!(RGenFlattenOpt, "generic-arg", "flatten", "container-bound-to-parameter"),
            ti!(RGenInlineNestedGen, "generic-arg", "inline", "container-bound-to-parameter"),
            ti!(RAlias, "alias"),
            ti!(RAliasAs, "alias", "as"),
            ti!(RAliasInline, "alias", "inline"),
            ti!(EAlias, "alias", "enum"),
            ti!(RBoth, "field", "generic-arg"),
            ti!(RInlineAndName, "inline", "field", "same-type-twice"),
            ti!(RNameAndInline, "inline", "field", "same-type-twice"),
            ti!(RFlattenAndName, "flatten", "field", "same-type-twice"),
            ti!(RGenInlineAndName, "generic-arg", "inline", "same-type-twice"),
            ti!(RNameAndGenInline, "generic-arg", "inline", "same-type-twice"),
            ti!(RTupleInlineAndName, "tuple", "inline", "same-type-twice"),
            ti!(EInlineAndName, "enum", "inline-payload", "same-type-twice"),
            ti!(RInlineSet, "inline", "container"),
            ti!(RSetOfGen, "container", "generic-arg"),
            ti!(RGenHidden, "generic-arg", "parameter-not-in-fields"),
            ti!(RGenHiddenVec, "generic-arg", "parameter-not-in-fields", "container-bound-to-parameter"),
            ti!(RGenHiddenDeep, "generic-arg", "parameter-not-in-fields", "container-bound-to-parameter"),
            ti!(RGenHiddenInline, "generic-arg", "parameter-not-in-fields", "container-bound-to-parameter", "inline"),
            ti!(RSkip, "skip"),
            ti!(ROptional, "optional"),
            ti!(EExt, "enum", "external"),
            ti!(EInt, "enum", "internal"),
            ti!(EAdj, "enum", "adjacent"),
            ti!(EUnt, "enum", "untagged"),
            ti!(EExtInl, "enum", "external", "inline-payload"),
            ti!(EIntInl, "enum", "internal", "inline-payload", "tagged-newtype-inline"),
            ti!(EAdjInl, "enum", "adjacent", "inline-payload", "tagged-newtype-inline"),
            ti!(EUntInl, "enum", "untagged", "inline-payload"),
            ti!(EExtSkip, "enum", "external", "skip-payload"),
            ti!(EIntSkip, "enum", "internal", "skip-payload"),
            ti!(EAdjSkip, "enum", "adjacent", "skip-payload"),
            ti!(EVarSkip, "enum", "variant-skip"),
            ti!(EVarInline, "enum", "variant-inline"),
            ti!(EVarUntagged, "enum", "variant-untagged"),
            ti!(EIntFlat, "enum", "internal", "flatten"),
            ti!(EGen, "enum", "generic-arg"),
        ]
    }

    /// every non-root type of the corpus, by TypeScript name, with its placement key
    pub fn others() -> Vec<(&'static str, TypeInfo)> {
        vec![
            ("B", ti!(B)),
            ("C", ti!(C)),
            ("B2", ti!(B2)),
            ("G", ti!(G<ts_rs::Dummy>)),
            ("GH", ti!(GH<ts_rs::Dummy>)),
            ("GO", ti!(GO<ts_rs::Dummy>)),
            ("K", ti!(K)),
            ("Y", ti!(RCyc2)),
        ]
    }
}
