//! C05 (histories): every permutation of every small subset of the M corpus, (1) folded through
//! the real `merge`, (2) exported through the real `T::export()`; compared with the reference
//! model after every step; re-export must change nothing.

use std::collections::{BTreeMap, BTreeSet};

use serde_json::json;
use ts_rs::__verif as hooks;
use tsmodel::refmodel::{expected_file, split_single, Single};

use crate::{
    common::{arg_value, guarded, permutations, subsets, Report, Scratch, Slice, TypeInfo},
    corpus,
};

const NORMAL_FEATS: &[&str] = &[
    "plain",
    "import",
    "generic",
    "doc-lines",
    "multi-line",
    "same-file-ref",
];

pub fn class_feats(types: &[&TypeInfo]) -> Vec<String> {
    let mut f: BTreeSet<String> = BTreeSet::new();
    for t in types {
        for x in t.feats {
            if !NORMAL_FEATS.contains(x) {
                f.insert(x.to_string());
            }
        }
    }
    // a pair feature only counts when both halves are present
    let has = |s: &str| f.contains(s);
    let pair = has("suffix-of-generic-ident") && has("generic-with-suffixed-sibling");
    f.remove("suffix-of-generic-ident");
    f.remove("generic-with-suffixed-sibling");
    if pair {
        f.insert("generic-ident-is-prefix-of-sibling".into());
    }
    f.into_iter().collect()
}

pub fn singles(types: &[TypeInfo]) -> Result<Vec<Single>, String> {
    types
        .iter()
        .map(|t| {
            let s = guarded(|| (t.export_to_string)())?;
            split_single(&(t.ident)(), &s)
        })
        .collect()
}

pub fn run(args: &[String]) {
    let max_pure: usize = arg_value(args, "--max-pure").map_or(3, |s| s.parse().unwrap());
    let max_fs: usize = arg_value(args, "--max-fs").map_or(3, |s| s.parse().unwrap());
    let slice = arg_value(args, "--slice").map_or(Slice { i: 0, n: 1 }, |s| Slice::parse(&s));
    let mut rep = Report::new("merge");
    let types = corpus::m::types();
    let n = types.len();
    let mut scratch = Scratch::new("merge");
    let wd = scratch.fresh();
    std::env::set_current_dir(&wd).unwrap();
    std::env::remove_var("TS_RS_EXPORT_DIR");

    let singles = match singles(&types) {
        Ok(s) => s,
        Err(e) => {
            rep.machinery_errors
                .push(format!("cannot take single-type outputs: {e}"));
            rep.finish();
        }
    };
    let texts: Vec<String> = types
        .iter()
        .map(|t| (t.export_to_string)().unwrap())
        .collect();

    let mut outcomes_per_set: BTreeMap<Vec<usize>, BTreeSet<String>> = BTreeMap::new();
    let mut case_no = 0usize;

    // ---- (1) pure folds through `merge` ---------------------------------------------------------
    for k in 1..=max_pure.min(n) {
        for set in subsets(n, k) {
            case_no += 1;
            if !slice.mine(case_no) {
                continue;
            }
            let members: Vec<Single> = set.iter().map(|&i| singles[i].clone()).collect();
            let expected = expected_file(&members);
            let tys: Vec<&TypeInfo> = set.iter().map(|&i| &types[i]).collect();
            let feats = class_feats(&tys);
            for perm in permutations(k) {
                let order: Vec<usize> = perm.iter().map(|&j| set[j]).collect();
                rep.evaluations += 1;
                let got = guarded(|| {
                    // the file that holds exactly these types, handed over in this order
                    let items: Vec<(String, String)> = order
                        .iter()
                        .map(|&i| ((types[i].ident)(), texts[i].clone()))
                        .collect();
                    Ok(hooks::merge(&items))
                });
                rep.transitions += (k - 1) as u64;
                let names: Vec<&str> = order.iter().map(|&i| types[i].rust).collect();
                match got {
                    Ok(g) => {
                        // the file on disk is NOTE + merged text; `merge` returns the part after NOTE
                        let full = g;
                        outcomes_per_set
                            .entry(set.clone())
                            .or_default()
                            .insert(full.clone());
                        rep.distinct.insert(full.clone());
                        if full != expected {
                            rep.violation(
                                json!({"check": "pure-merge-vs-reference", "set_feats": feats}),
                                json!({"order": names, "got": full, "expected": expected}),
                            );
                        }
                    }
                    Err(e) => rep.violation(
                        json!({"check": "pure-merge-panics", "set_feats": feats}),
                        json!({"order": names, "error": e}),
                    ),
                }
            }
            if rep.samples.len() < 2 {
                rep.sample(json!({"kind": "pure", "set": tys.iter().map(|t| t.rust).collect::<Vec<_>>(), "permutations": permutations(k).len(), "expected_file": expected}));
            }
        }
    }
    let mut confluence_groups = 0u64;
    for (set, outs) in &outcomes_per_set {
        if set.len() >= 2 {
            confluence_groups += 1;
            if outs.len() != 1 {
                let tys: Vec<&TypeInfo> = set.iter().map(|&i| &types[i]).collect();
                rep.violation(
                    json!({"check": "pure-merge-confluence", "set_feats": class_feats(&tys)}),
                    json!({"set": tys.iter().map(|t| t.rust).collect::<Vec<_>>(), "distinct_outcomes": outs.len(), "outcomes": outs}),
                );
            }
        }
    }
    rep.count("pure_sets_with_2plus_orders", confluence_groups);

    // ---- (2) through the exporter -----------------------------------------------------------------
    let mut fs_outcomes: BTreeMap<Vec<usize>, BTreeSet<String>> = BTreeMap::new();
    for k in 1..=max_fs.min(n) {
        for set in subsets(n, k) {
            case_no += 1;
            if !slice.mine(case_no) {
                continue;
            }
            let tys: Vec<&TypeInfo> = set.iter().map(|&i| &types[i]).collect();
            let feats = class_feats(&tys);
            // sets of up to 3 also with an absolute TS_RS_EXPORT_DIR (one member spells the file with `..`)
            let envs: &[bool] = if k <= 3 { &[false, true] } else { &[false] };
            for (perm, &env_abs) in permutations(k).into_iter().flat_map(|p| envs.iter().map(move |e| (p.clone(), e))) {
                let order: Vec<usize> = perm.iter().map(|&j| set[j]).collect();
                rep.evaluations += 1;
                let wd = scratch.fresh();
                std::env::set_current_dir(&wd).unwrap();
                if env_abs {
                    std::env::set_var("TS_RS_EXPORT_DIR", wd.join("bindings"));
                } else {
                    std::env::remove_var("TS_RS_EXPORT_DIR");
                }
                hooks::reset_registry();
                let names: Vec<&str> = order.iter().map(|&i| types[i].rust).collect();
                let file = wd.join("bindings/shared/m.ts");
                let mut so_far: Vec<Single> = vec![];
                let mut failed = false;
                for (step, &i) in order.iter().enumerate() {
                    rep.transitions += 1;
                    let r = guarded(|| (types[i].export)());
                    so_far.push(singles[i].clone());
                    let expected = expected_file(&so_far);
                    let got = std::fs::read_to_string(&file).unwrap_or_else(|e| format!("<unreadable: {e}>"));
                    if let Err(e) = r {
                        rep.violation(
                            json!({"check": "export-fails", "set_feats": feats}),
                            json!({"order": names, "step": step, "error": e}),
                        );
                        failed = true;
                        break;
                    }
                    if got != expected {
                        rep.violation(
                            json!({"check": "export-vs-reference", "set_feats": class_feats(&order[..=step].iter().map(|&i| &types[i]).collect::<Vec<_>>())}),
                            json!({"order": names, "after_step": step, "got": got, "expected": expected}),
                        );
                        failed = true;
                        break;
                    }
                }
                if !failed {
                    let before = std::fs::read_to_string(&file).unwrap();
                    fs_outcomes.entry(set.clone()).or_default().insert(before.clone());
                    // idempotence: re-export every member, in order
                    for &i in &order {
                        rep.transitions += 1;
                        let r = guarded(|| (types[i].export)());
                        let after = std::fs::read_to_string(&file).unwrap_or_default();
                        if r.is_err() || after != before {
                            rep.violation(
                                json!({"check": "re-export-changes-file", "set_feats": feats}),
                                json!({"order": names, "re_exported": types[i].rust, "result": format!("{r:?}"), "before": before, "after": after}),
                            );
                            break;
                        }
                    }
                    // nothing but the shared file and its parents was written
                    let tree = crate::common::snapshot(&wd);
                    if tree.len() != 1 {
                        rep.violation(
                            json!({"check": "unexpected-files", "set_feats": feats}),
                            json!({"order": names, "tree": crate::common::show_tree(&tree)}),
                        );
                    }
                }
                let _ = std::fs::remove_dir_all(&wd);
            }
            if k == max_fs.min(n) && rep.samples.len() < 4 {
                rep.sample(json!({"kind": "through-exporter", "set": tys.iter().map(|t| t.rust).collect::<Vec<_>>(), "orders": permutations(k).len(), "checked_after_every_step": true, "re_export_checked": true}));
            }
        }
    }
    let mut groups = 0;
    for (set, outs) in &fs_outcomes {
        if set.len() >= 2 {
            groups += 1;
            if outs.len() > 1 {
                let tys: Vec<&TypeInfo> = set.iter().map(|&i| &types[i]).collect();
                rep.violation(
                    json!({"check": "export-confluence", "set_feats": class_feats(&tys)}),
                    json!({"set": tys.iter().map(|t| t.rust).collect::<Vec<_>>(), "distinct_outcomes": outs.len()}),
                );
            }
        }
    }
    std::env::remove_var("TS_RS_EXPORT_DIR");
    rep.count("fs_sets_with_2plus_orders", groups);
    rep.states = rep.distinct.len() as u64 + fs_outcomes.values().map(|s| s.len() as u64).sum::<u64>();
    drop(scratch);
    rep.finish();
}

#[inline]
fn rep_transition() {}
