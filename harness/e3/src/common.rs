//! Shared infrastructure of the export explorer.

use std::{
    collections::BTreeMap,
    fs,
    panic::{catch_unwind, AssertUnwindSafe},
    path::{Path, PathBuf},
    sync::RwLock,
};

use serde_json::{json, Value};
use ts_rs::TS;

// ---- run-time placement of corpus types -------------------------------------------------------

static PLACE: RwLock<BTreeMap<String, String>> = RwLock::new(BTreeMap::new());

/// `#[ts(export_to = place("K"))]`: where the type with placement key `K` goes.
pub fn place(key: &str) -> String {
    PLACE
        .read()
        .unwrap()
        .get(key)
        .cloned()
        .unwrap_or_else(|| format!("{key}.ts"))
}

pub fn set_place(key: &str, val: Option<&str>) {
    let mut p = PLACE.write().unwrap();
    match val {
        Some(v) => {
            p.insert(key.to_owned(), v.to_owned());
        }
        None => {
            p.remove(key);
        }
    }
}

pub fn clear_places() {
    PLACE.write().unwrap().clear();
}

// ---- type table ----------------------------------------------------------------------------------

#[derive(Clone)]
pub struct TypeInfo {
    pub rust: &'static str,
    pub feats: &'static [&'static str],
    pub ident: fn() -> String,
    pub name: fn() -> String,
    pub decl: fn() -> String,
    pub export: fn() -> Result<(), String>,
    pub export_all: fn() -> Result<(), String>,
    pub export_all_to: fn(&Path) -> Result<(), String>,
    pub export_to_string: fn() -> Result<String, String>,
    pub output_path: fn() -> Option<PathBuf>,
    pub default_output_path: fn() -> Option<PathBuf>,
    pub deps: fn() -> Vec<(String, PathBuf)>,
}

pub fn info<T: TS + 'static + ?Sized>(
    rust: &'static str,
    feats: &'static [&'static str],
) -> TypeInfo {
    TypeInfo {
        rust,
        feats,
        ident: || T::ident(),
        name: || T::name(),
        decl: || T::decl(),
        export: || T::export().map_err(|e| format!("{e:?}")),
        export_all: || T::export_all().map_err(|e| format!("{e:?}")),
        export_all_to: |p| T::export_all_to(p).map_err(|e| format!("{e:?}")),
        export_to_string: || T::export_to_string().map_err(|e| format!("{e:?}")),
        output_path: || T::output_path(),
        default_output_path: || T::default_output_path(),
        deps: || {
            T::dependencies()
                .into_iter()
                .map(|d| (d.ts_name, d.output_path))
                .collect()
        },
    }
}

#[macro_export]
macro_rules! ti {
    ($t:ty) => {
        $crate::common::info::<$t>(stringify!($t), &[])
    };
    ($t:ty, $($f:literal),*) => {
        $crate::common::info::<$t>(stringify!($t), &[$($f),*])
    };
}

// ---- panics --------------------------------------------------------------------------------------

pub fn silence_panics() {
    std::panic::set_hook(Box::new(|_| {}));
}

/// Run `f`, turning a panic into `Err("PANIC: …")`.
pub fn guarded<T>(f: impl FnOnce() -> Result<T, String>) -> Result<T, String> {
    match catch_unwind(AssertUnwindSafe(f)) {
        Ok(r) => r,
        Err(p) => {
            let msg = p
                .downcast_ref::<String>()
                .cloned()
                .or_else(|| p.downcast_ref::<&str>().map(|s| s.to_string()))
                .unwrap_or_else(|| "<non-string panic>".into());
            Err(format!("PANIC: {msg}"))
        }
    }
}

// ---- scratch directories -------------------------------------------------------------------------

pub struct Scratch {
    pub root: PathBuf,
    counter: usize,
}

impl Scratch {
    pub fn new(tag: &str) -> Scratch {
        let base = std::env::var("TSRS_VERIF_SCRATCH").unwrap_or_else(|_| "/dev/shm".into());
        let root = PathBuf::from(base).join(format!("tsrs-verif.{}.{tag}", std::process::id()));
        let _ = fs::remove_dir_all(&root);
        fs::create_dir_all(&root).expect("create scratch root");
        Scratch { root, counter: 0 }
    }

    /// A fresh, empty directory (the previous ones are removed by the caller when done).
    pub fn fresh(&mut self) -> PathBuf {
        self.counter += 1;
        let d = self.root.join(format!("w{}", self.counter));
        let _ = fs::remove_dir_all(&d);
        fs::create_dir_all(&d).expect("create scratch dir");
        d
    }
}

impl Drop for Scratch {
    fn drop(&mut self) {
        let _ = std::env::set_current_dir("/");
        let _ = fs::remove_dir_all(&self.root);
    }
}

// ---- directory snapshots -------------------------------------------------------------------------

#[derive(Clone, Debug, PartialEq, Eq, PartialOrd, Ord, Hash)]
pub enum Node {
    File(Vec<u8>),
    Dir,
}

pub type Tree = BTreeMap<String, Node>;

/// path (relative to `root`) -> contents, for every file and every *empty* directory.
pub fn snapshot(root: &Path) -> Tree {
    let mut out = Tree::new();
    fn walk(root: &Path, dir: &Path, out: &mut Tree) {
        let mut entries: Vec<_> = match fs::read_dir(dir) {
            Ok(r) => r.filter_map(|e| e.ok()).collect(),
            Err(_) => return,
        };
        entries.sort_by_key(|e| e.file_name());
        if entries.is_empty() && dir != root {
            out.insert(
                dir.strip_prefix(root).unwrap().to_string_lossy().into_owned(),
                Node::Dir,
            );
        }
        for e in entries {
            let p = e.path();
            let ft = e.file_type().unwrap();
            if ft.is_dir() {
                walk(root, &p, out);
            } else {
                out.insert(
                    p.strip_prefix(root).unwrap().to_string_lossy().into_owned(),
                    Node::File(fs::read(&p).unwrap_or_default()),
                );
            }
        }
    }
    walk(root, root, &mut out);
    out
}

/// Files only, as text.
pub fn files_of(t: &Tree) -> BTreeMap<String, String> {
    t.iter()
        .filter_map(|(k, v)| match v {
            Node::File(b) => Some((k.clone(), String::from_utf8_lossy(b).into_owned())),
            Node::Dir => None,
        })
        .collect()
}

pub fn mtimes(root: &Path) -> BTreeMap<String, (u64, std::time::SystemTime)> {
    use std::os::unix::fs::MetadataExt;
    let mut out = BTreeMap::new();
    fn walk(
        root: &Path,
        dir: &Path,
        out: &mut BTreeMap<String, (u64, std::time::SystemTime)>,
    ) {
        if let Ok(r) = fs::read_dir(dir) {
            for e in r.filter_map(|e| e.ok()) {
                let p = e.path();
                if let Ok(md) = e.metadata() {
                    if md.is_dir() {
                        walk(root, &p, out);
                    } else {
                        out.insert(
                            p.strip_prefix(root).unwrap().to_string_lossy().into_owned(),
                            (md.ino(), md.modified().unwrap()),
                        );
                    }
                }
            }
        }
    }
    walk(root, root, &mut out);
    out
}

pub fn show_tree(t: &Tree) -> Value {
    let mut m = serde_json::Map::new();
    for (k, v) in t {
        m.insert(
            k.clone(),
            match v {
                Node::File(b) => Value::String(String::from_utf8_lossy(b).into_owned()),
                Node::Dir => json!({"dir": true}),
            },
        );
    }
    Value::Object(m)
}

// ---- result accumulation -------------------------------------------------------------------------

#[derive(Default)]
pub struct Report {
    pub mode: String,
    pub evaluations: u64,
    pub states: u64,
    pub transitions: u64,
    pub counters: BTreeMap<String, u64>,
    /// signature -> (count, first examples)
    pub violations: BTreeMap<String, (u64, Vec<Value>)>,
    pub samples: Vec<Value>,
    pub distinct: std::collections::BTreeSet<String>,
    pub machinery_errors: Vec<String>,
}

impl Report {
    pub fn new(mode: &str) -> Report {
        Report {
            mode: mode.into(),
            ..Default::default()
        }
    }
    pub fn count(&mut self, k: &str, n: u64) {
        *self.counters.entry(k.into()).or_default() += n;
    }
    /// `class`: JSON object of the structural fields that identify the root-cause class (what the
    /// known-findings matchers see); `detail`: one concrete failing case.
    pub fn violation(&mut self, class: Value, detail: Value) {
        let e = self.violations.entry(class.to_string()).or_insert((0, vec![]));
        e.0 += 1;
        if e.1.len() < 3 {
            e.1.push(detail);
        }
    }
    pub fn sample(&mut self, v: Value) {
        if self.samples.len() < 6 {
            self.samples.push(v);
        }
    }
    pub fn finish(self) -> ! {
        let viol: Vec<Value> = self
            .violations
            .iter()
            .map(|(sig, (n, ex))| {
                json!({"class": serde_json::from_str::<Value>(sig).unwrap(), "count": n, "examples": ex})
            })
            .collect();
        let out = json!({
            "mode": self.mode,
            "evaluations": self.evaluations,
            "states": self.states,
            "transitions": self.transitions,
            "counters": self.counters,
            "distinct": self.distinct.len(),
            "distinct_hashes": self.distinct.iter().map(|s| {
                use std::hash::{Hash, Hasher};
                let mut h = std::collections::hash_map::DefaultHasher::new();
                s.hash(&mut h);
                format!("{:016x}", h.finish())
            }).collect::<Vec<_>>(),
            "violations": viol,
            "samples": self.samples,
            "machinery_errors": self.machinery_errors,
        });
        println!("{}", serde_json::to_string(&out).unwrap());
        std::process::exit(if self.machinery_errors.is_empty() { 0 } else { 2 });
    }
}

/// `i/n` slicing of an enumeration.
#[derive(Clone, Copy)]
pub struct Slice {
    pub i: usize,
    pub n: usize,
}
impl Slice {
    pub fn parse(s: &str) -> Slice {
        let (a, b) = s.split_once('/').expect("slice i/n");
        Slice {
            i: a.parse().unwrap(),
            n: b.parse().unwrap(),
        }
    }
    pub fn mine(&self, k: usize) -> bool {
        k % self.n == self.i
    }
}

pub fn arg_value(args: &[String], key: &str) -> Option<String> {
    args.iter()
        .position(|a| a == key)
        .and_then(|i| args.get(i + 1).cloned())
}

pub fn permutations(n: usize) -> Vec<Vec<usize>> {
    fn go(cur: &mut Vec<usize>, used: &mut Vec<bool>, n: usize, out: &mut Vec<Vec<usize>>) {
        if cur.len() == n {
            out.push(cur.clone());
            return;
        }
        for i in 0..n {
            if !used[i] {
                used[i] = true;
                cur.push(i);
                go(cur, used, n, out);
                cur.pop();
                used[i] = false;
            }
        }
    }
    let mut out = vec![];
    go(&mut vec![], &mut vec![false; n], n, &mut out);
    out
}

/// all k-subsets of 0..n (ascending)
pub fn subsets(n: usize, k: usize) -> Vec<Vec<usize>> {
    fn go(start: usize, n: usize, k: usize, cur: &mut Vec<usize>, out: &mut Vec<Vec<usize>>) {
        if cur.len() == k {
            out.push(cur.clone());
            return;
        }
        for i in start..n {
            cur.push(i);
            go(i + 1, n, k, cur, out);
            cur.pop();
        }
    }
    let mut out = vec![];
    go(0, n, k, &mut vec![], &mut out);
    out
}
