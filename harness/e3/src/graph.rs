//! C03b / C08b / C11 / C04(i): dependency-graph corpus x run-time placements x base spellings.
//! One real `export_all*` per case; then (C11) the set of touched paths must be exactly the
//! expected locations of the types reachable by name, and (C03) every written file must be closed.

use std::{
    collections::{BTreeMap, BTreeSet},
    path::{Path, PathBuf},
};

use serde_json::{json, Value};
use ts_rs::__verif as hooks;
use tsmodel::paths::{join, normalize, resolve_spec, spec_syntax_errors};

use crate::{
    common::{
        arg_value, clear_places, files_of, guarded, mtimes, set_place, snapshot, Node, Report,
        Scratch, Slice, TypeInfo,
    },
    corpus,
};

pub const PLACEMENTS: &[Option<&str>] = &[
    None,
    Some("d/"),
    Some("s.ts"),
    Some("d/x.ts"),
    Some("../up/"),
    Some("d/e/"),
    Some("d/x.js.ts"),
    // a second spelling of `s.ts`: two types can share a file under different `export_to` strings
    Some("d/../s.ts"),
    // a file whose extension is not `.ts` (no specifier names it under the property's reading; the
    // same-file rules still apply when two types share it)
    Some("s.mts"),
];

pub fn loc_of(name: &str, placement: Option<&str>) -> String {
    match placement {
        None => format!("{name}.ts"),
        Some(p) if p.ends_with('/') => format!("{p}{name}.ts"),
        Some(p) => p.to_owned(),
    }
}

struct BaseCfg {
    label: &'static str,
    /// (TS_RS_EXPORT_DIR, argument of export_all_to or None for export_all, directory relative to wd)
    make: fn(&Path) -> (Option<String>, Option<String>, &'static str),
}

const BASES: &[BaseCfg] = &[
    BaseCfg { label: "default", make: |_| (None, None, "bindings") },
    BaseCfg { label: "to-rel-dotted", make: |_| (None, Some("./x/../out".into()), "out") },
    // the base directory reached through a symbolic link (`lnk` -> `real`, made by `one_case`)
    BaseCfg { label: "to-through-symlink", make: |_| (None, Some("lnk/out".into()), "real/out") },
    BaseCfg { label: "env-rel-deep", make: |_| (Some("out/deep".into()), None, "out/deep") },
    BaseCfg { label: "env-abs", make: |wd| (Some(wd.join("out").to_string_lossy().into_owned()), None, "out") },
    BaseCfg { label: "to-abs", make: |wd| (None, Some(wd.join("out").to_string_lossy().into_owned()), "out") },
    BaseCfg { label: "to-trailing-slash", make: |_| (None, Some("out/".into()), "out") },
    BaseCfg { label: "env-dot-prefixed", make: |_| (Some("./out".into()), None, "out") },
];

const BUILTIN: &[&str] = &["Array", "Record"];

pub struct Table {
    pub by_name: BTreeMap<String, (TypeInfo, &'static str)>,
}

pub fn closure_by_name(root: &TypeInfo, table: &Table) -> Result<(BTreeSet<String>, Vec<String>), String> {
    let mut seen: BTreeSet<String> = BTreeSet::new();
    let mut unknown = vec![];
    let mut work: Vec<(String, TypeInfo)> = vec![((root.ident)(), root.clone())];
    while let Some((name, info)) = work.pop() {
        if !seen.insert(name.clone()) {
            continue;
        }
        let decl_s = guarded(|| Ok((info.decl)()))?;
        let d = tsmodel::parse_decl(&decl_s).map_err(|e| format!("decl of {name} does not parse: {e:?}: {decl_s}"))?;
        for n in tsmodel::decl_free_names(&d) {
            if BUILTIN.contains(&n.as_str()) {
                continue;
            }
            match table.by_name.get(&n) {
                Some((ti, _)) => work.push((n.clone(), ti.clone())),
                None => unknown.push(n),
            }
        }
    }
    Ok((seen, unknown))
}

pub fn run(args: &[String]) {
    let thorough = args.iter().any(|a| a == "--thorough");
    let slice = arg_value(args, "--slice").map_or(Slice { i: 0, n: 1 }, |s| Slice::parse(&s));
    let esm = cfg!(feature = "import-esm");
    let mut rep = Report::new("graph");
    let roots = corpus::g::roots();
    let others = corpus::g::others();
    let mut scratch = Scratch::new("graph");

    // placement alphabets per key
    let p = |idx: &[usize]| -> Vec<Option<&'static str>> { idx.iter().map(|&i| PLACEMENTS[i]).collect() };
    // (only the placements of types reachable from a root make a case, see `seen_locs` below)
    let keys: Vec<(&str, Vec<Option<&'static str>>)> = if thorough {
        vec![
            ("A", p(&[0, 1, 2, 3, 4, 5, 6, 7, 8])),
            ("B", p(&[0, 1, 2, 3, 4, 5, 6, 7, 8])),
            ("C", p(&[0, 1, 2, 3, 4, 5, 6, 7])),
            ("B2", p(&[0, 1, 2, 3, 4, 6])),
            ("G", p(&[0, 3, 2, 4])),
            ("K", p(&[0, 2, 1])),
            ("Y", p(&[0, 2, 4])),
        ]
    } else {
        vec![
            ("A", p(&[0, 1, 2, 3, 4, 5, 6, 7, 8])),
            ("B", p(&[0, 1, 2, 3, 4, 5, 6, 7, 8])),
            ("C", p(&[0, 1, 2, 3, 4])),
            ("B2", p(&[0, 2, 4, 6])),
            ("G", p(&[0, 3, 2])),
            ("K", p(&[0, 2])),
            ("Y", p(&[0, 2])),
        ]
    };
    let bases: Vec<&BaseCfg> = if thorough { BASES.iter().collect() } else { [0usize, 1, 2, 4, 6].iter().map(|&i| &BASES[i]).collect() };
    let pre_kinds: &[&str] = if thorough { &["none", "unrelated", "at-targets"] } else { &["unrelated", "at-targets"] };

    // all assignments
    let mut assigns: Vec<Vec<Option<&'static str>>> = vec![vec![]];
    for (_, alpha) in &keys {
        let mut next = vec![];
        for a in &assigns {
            for x in alpha {
                let mut b = a.clone();
                b.push(*x);
                next.push(b);
            }
        }
        assigns = next;
    }
    rep.count("placement_assignments", assigns.len() as u64);
    rep.count("roots", roots.len() as u64);

    let mut case_no = 0usize;
    for (ri, root) in roots.iter().enumerate() {
        // An export only ever looks at the placements of the types reachable from the root, so two
        // assignments that agree on those are the same case: each (root, locations) is run once.
        let mut seen_locs: BTreeSet<String> = BTreeSet::new();
        // reachable types, by name: a matter of the declarations, not of the placements
        let mut table = Table { by_name: BTreeMap::new() };
        for (k, ti) in &others {
            table.by_name.insert((ti.ident)(), (ti.clone(), k));
        }
        table.by_name.insert("A".into(), (root.clone(), "A"));
        clear_places();
        let (closure, unknown) = match closure_by_name(root, &table) {
            Ok(c) => c,
            Err(e) => {
                rep.violation(json!({"prop": "C11", "check": "declaration-unreadable", "root": root.rust}), json!({"error": e}));
                continue;
            }
        };
        if !unknown.is_empty() {
            rep.violation(
                json!({"prop": "C03", "check": "free-name-is-no-known-type", "root": root.rust}),
                json!({"names": unknown}),
            );
        }
        for assign in &assigns {
            rep.count("assignments_considered", 1);
            let mut place_of: BTreeMap<&str, Option<&'static str>> = BTreeMap::new();
            for ((k, _), v) in keys.iter().zip(assign) {
                place_of.insert(k, *v);
            }
            // the generics with a hidden parameter are placed like `G`
            for extra in ["GH", "GO"] {
                let v = place_of["G"];
                place_of.insert(extra, v);
            }
            let locs: BTreeMap<String, String> = closure
                .iter()
                .map(|n| {
                    let key = table.by_name[n].1;
                    (n.clone(), loc_of(n, place_of[key]))
                })
                .collect();
            if !seen_locs.insert(format!("{locs:?}")) {
                continue;
            }
            case_no += 1;
            if !slice.mine(case_no) {
                continue;
            }
            rep.distinct.insert(format!("{}|{:?}", root.rust, locs));
            clear_places();
            for (k, v) in &place_of {
                set_place(k, *v);
            }
            for base in &bases {
                for pre in pre_kinds {
                    rep.evaluations += 1;
                    one_case(&mut rep, &mut scratch, root, ri, &table, &closure, &locs, base, pre, esm, assign);
                }
            }
        }
    }
    clear_places();
    std::env::remove_var("TS_RS_EXPORT_DIR");
    drop(scratch);
    rep.finish();
}

#[allow(clippy::too_many_arguments)]
fn one_case(
    rep: &mut Report,
    scratch: &mut Scratch,
    root: &TypeInfo,
    _ri: usize,
    table: &Table,
    closure: &BTreeSet<String>,
    locs: &BTreeMap<String, String>,
    base: &BaseCfg,
    pre: &str,
    esm: bool,
    assign: &[Option<&'static str>],
) {
    let wd0 = scratch.fresh();
    // work two levels down so that `../up/` placements stay inside the scratch directory
    let wd = wd0.join("w");
    std::fs::create_dir_all(wd.join("x")).unwrap();
    std::env::set_current_dir(&wd).unwrap();
    let (env, to, d) = (base.make)(&wd);
    if base.label.ends_with("symlink") {
        std::fs::create_dir_all(wd.join("real")).unwrap();
        std::os::unix::fs::symlink("real", wd.join("lnk")).unwrap();
    }
    match &env {
        Some(v) => std::env::set_var("TS_RS_EXPORT_DIR", v),
        None => std::env::remove_var("TS_RS_EXPORT_DIR"),
    }
    hooks::reset_registry();
    let wd_s = wd.to_string_lossy().into_owned();
    let abs_of = |loc: &str| normalize(&join(&join(&wd_s, d), loc)).expect("inside scratch");
    let expected: BTreeMap<String, String> = locs.iter().map(|(n, l)| (abs_of(l), n.clone())).collect::<Vec<_>>()
        .into_iter().fold(BTreeMap::new(), |mut m, (p, n)| { m.entry(p).or_insert_with(String::new).push_str(&format!("{n} ")); m });
    let expected_paths: BTreeSet<String> = expected.keys().cloned().collect();
    // members per file
    let mut members: BTreeMap<String, BTreeSet<String>> = BTreeMap::new();
    for (n, l) in locs {
        members.entry(abs_of(l)).or_default().insert(n.clone());
    }
    match pre {
        "none" => {}
        "unrelated" => {
            let dd = wd.join(d);
            std::fs::create_dir_all(dd.join("keep/me")).unwrap();
            std::fs::write(dd.join("keep/me/notes.txt"), "unrelated").unwrap();
            std::fs::write(dd.join("Unrelated.ts"), "export type Unrelated = 1;\n").unwrap();
            std::fs::write(wd.join("outside.txt"), "outside").unwrap();
        }
        "at-targets" => {
            for p in &expected_paths {
                std::fs::create_dir_all(Path::new(p).parent().unwrap()).unwrap();
                std::fs::write(p, "stale {{{").unwrap();
            }
        }
        _ => unreachable!(),
    }
    let before = snapshot(&wd0);
    let before_m = mtimes(&wd0);
    let r = match &to {
        Some(s) => guarded(|| (root.export_all_to)(Path::new(s))),
        None => guarded(|| (root.export_all)()),
    };
    let after = snapshot(&wd0);
    let after_m = mtimes(&wd0);
    let cls = |prop: &str, check: &str| {
        let shared = members.values().any(|m| m.len() > 1);
        json!({"prop": prop, "check": check, "root": root.rust, "root_feats": root.feats, "shared_file": shared})
    };
    let det = |extra: Value| {
        json!({"placements": format!("{assign:?}"), "locations": locs, "base": base.label, "pre_existing": pre, "info": extra})
    };
    if let Err(e) = &r {
        rep.violation(cls("C11", "export-fails"), det(json!({"error": e})));
        let _ = std::fs::remove_dir_all(&wd0);
        return;
    }
    // ---- C11: exactly the expected paths were created or modified --------------------------------
    let rel = |abs: &str| abs.strip_prefix(&format!("{}/", wd0.to_string_lossy())).unwrap_or(abs).to_owned();
    let expected_rel: BTreeSet<String> = expected_paths.iter().map(|p| rel(p)).collect();
    let mut touched: BTreeSet<String> = BTreeSet::new();
    for (k, v) in &after {
        if matches!(v, Node::Dir) {
            continue;
        }
        if before.get(k) != Some(v) || before_m.get(k) != after_m.get(k) {
            touched.insert(k.clone());
        }
    }
    for (k, v) in &before {
        if matches!(v, Node::File(_)) && !after.contains_key(k) {
            rep.violation(cls("C11", "pre-existing-file-removed"), det(json!({"path": k})));
        }
    }
    if touched != expected_rel {
        let missing: Vec<&String> = expected_rel.difference(&touched).collect();
        let extra: Vec<&String> = touched.difference(&expected_rel).collect();
        rep.violation(
            cls("C11", if !missing.is_empty() { "expected-file-not-written" } else { "unexpected-file-touched" }),
            det(json!({"missing": missing, "unexpected": extra, "reachable_by_name": closure})),
        );
    }
    // stray empty directories outside the expected parents
    for (k, v) in &after {
        if matches!(v, Node::Dir) && before.get(k).is_none() {
            rep.violation(cls("C11", "stray-empty-directory"), det(json!({"path": k})));
        }
    }
    // the path a type reports for itself is the path that gets written
    for n in closure {
        let (ti, _) = &table.by_name[n];
        let reported = (ti.output_path)().map(|p| p.to_string_lossy().into_owned());
        if reported.as_deref() != Some(locs[n].as_str()) {
            rep.violation(
                cls("C11", "reported-output-path-differs"),
                det(json!({"type": n, "reported": reported, "expected": locs[n]})),
            );
        }
    }
    // ---- C03 / C04 / C08: every written file is a closed, well-formed module ----------------------
    let files = files_of(&after);
    let mut parsed: BTreeMap<String, tsmodel::Module> = BTreeMap::new();
    for p in &expected_paths {
        let text = match files.get(&rel(p)) {
            Some(t) => t,
            None => continue,
        };
        match tsmodel::parse_module(text) {
            Ok(m) => {
                parsed.insert(p.clone(), m);
            }
            Err(e) => rep.violation(cls("C04", "file-does-not-parse"), det(json!({"file": rel(p), "error": format!("{e:?}"), "text": text}))),
        }
        if !text.starts_with(hooks::NOTE) {
            rep.violation(cls("C04", "notice-missing"), det(json!({"file": rel(p), "text": text})));
        }
        if !text.ends_with('\n') {
            rep.violation(cls("C04", "no-trailing-newline"), det(json!({"file": rel(p)})));
        }
    }
    for (p, m) in &parsed {
        let text = &files[&rel(p)];
        if !m.layout_errors.is_empty() {
            rep.violation(cls("C04", "module-layout"), det(json!({"file": rel(p), "problems": m.layout_errors, "text": text})));
        }
        let declared: Vec<String> = m.decls.iter().map(|d| d.name.clone()).collect();
        let declared_set: BTreeSet<String> = declared.iter().cloned().collect();
        let want = &members[p];
        if declared.len() != declared_set.len() || &declared_set != want {
            rep.violation(
                cls("C04", "declared-names-differ-from-exported-types"),
                det(json!({"file": rel(p), "declared": declared, "exported_here": want, "text": text})),
            );
        }
        let mut used: BTreeSet<String> = BTreeSet::new();
        for d in &m.decls {
            for n in tsmodel::decl_free_names(d) {
                if !BUILTIN.contains(&n.as_str()) && !declared_set.contains(&n) {
                    used.insert(n);
                }
            }
        }
        let mut imported: BTreeMap<String, usize> = BTreeMap::new();
        for i in &m.imports {
            for n in &i.names {
                *imported.entry(n.clone()).or_default() += 1;
            }
            // a dependency file whose stem itself ends in `.js` (`x.js.ts`) is named `./x.js` even
            // without ESM imports: the `.js`-iff-ESM clause cannot apply to it
            let stem_is_js = i.names.iter().any(|n| locs.get(n).map_or(false, |l| l.ends_with(".js.ts")));
            let mut errs = spec_syntax_errors(&i.spec, esm);
            if stem_is_js && !esm {
                errs.retain(|e| !e.contains("ends in .js although ESM imports are off"));
            }
            if !errs.is_empty() {
                rep.violation(cls("C08", "specifier-syntax"), det(json!({"file": rel(p), "spec": i.spec, "problems": errs})));
                continue;
            }
            // a dependency in a file without `.ts` extension has no correct specifier: only the
            // same-file rule is checked for it (literally: the specifier names the importer's own file)
            if i.names.iter().any(|n| locs.get(n).map_or(false, |l| !l.ends_with(".ts"))) {
                let own = Path::new(p).file_name().unwrap().to_string_lossy().into_owned();
                let last = i.spec.rsplit('/').next().unwrap_or("");
                let own_dir = i.spec.starts_with("./") && i.spec.matches('/').count() == 1;
                if own_dir && (last == own || Some(last) == own.rsplit_once('.').map(|x| x.0)) {
                    rep.violation(cls("C03", "file-imports-from-itself"), det(json!({"file": rel(p), "spec": i.spec, "text": text})));
                }
                rep.count("imports_of_files_without_ts_extension_not_resolved", 1);
                continue;
            }
            match resolve_spec(p, &i.spec, esm) {
                Some(target) if &target == p => {
                    rep.violation(cls("C03", "file-imports-from-itself"), det(json!({"file": rel(p), "spec": i.spec, "text": text})));
                }
                Some(target) => {
                    // C08: the specifier denotes exactly the file each imported type lives in
                    for n in &i.names {
                        if let Some(l) = locs.get(n) {
                            let want = abs_of(l);
                            if want != target {
                                rep.violation(
                                    cls("C08", "specifier-does-not-denote-the-dependency-file"),
                                    det(json!({"file": rel(p), "spec": i.spec, "name": n, "resolves_to": rel(&target), "dependency_file": rel(&want)})),
                                );
                            }
                        }
                    }
                    match parsed.get(&target) {
                    None => rep.violation(
                        cls("C03", "import-names-a-file-this-export-did-not-write"),
                        det(json!({"file": rel(p), "spec": i.spec, "resolves_to": rel(&target), "written": expected_rel})),
                    ),
                    Some(tm) => {
                        for n in &i.names {
                            if !tm.decls.iter().any(|d| &d.name == n && d.exported) {
                                rep.violation(
                                    cls("C03", "imported-name-not-declared-in-target"),
                                    det(json!({"file": rel(p), "spec": i.spec, "name": n, "target": rel(&target)})),
                                );
                            }
                        }
                    }
                    }
                }
                None => rep.violation(cls("C08", "specifier-climbs-above-root"), det(json!({"file": rel(p), "spec": i.spec}))),
            }
        }
        for n in &used {
            match imported.get(n) {
                None => rep.violation(cls("C03", "free-name-not-imported"), det(json!({"file": rel(p), "name": n, "text": text}))),
                Some(1) => {}
                Some(k) => rep.violation(cls("C03", "name-imported-more-than-once"), det(json!({"file": rel(p), "name": n, "times": k, "text": text}))),
            }
        }
        for n in imported.keys() {
            if !used.contains(n) {
                rep.violation(cls("C03", "unused-import"), det(json!({"file": rel(p), "name": n, "text": text})));
            }
        }
        rep.count("files_checked", 1);
        rep.count("import_statements_checked", m.imports.len() as u64);
    }
    if rep.samples.len() < 4 && closure.len() >= 3 {
        rep.sample(json!({"root": root.rust, "locations": locs, "base": base.label, "pre_existing": pre, "files_written": expected_rel}));
    }
    let _ = std::fs::remove_dir_all(&wd0);
    let _ = PathBuf::new();
}
