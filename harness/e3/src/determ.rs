//! C13: the observable output does not depend on (a) the order in which generated
//! `visit_dependencies` bodies run their statements (hook H2: every permutation for bodies of
//! <= 5 statements), (b) the order in which roots are exported, (c) running twice.

use std::{
    collections::{BTreeMap, BTreeSet},
    sync::Arc,
};

use serde_json::json;
use ts_rs::__verif as hooks;

use crate::{
    common::{
        arg_value, clear_places, files_of, guarded, permutations, set_place, snapshot, subsets,
        Report, Scratch, Slice, TypeInfo,
    },
    corpus,
    sched::{closure_of, expected_tree, universe_singles},
};

fn nth_perm(n: usize, k: usize) -> Vec<usize> {
    if n <= 1 {
        return (0..n).collect();
    }
    if n <= 5 {
        let ps = permutations(n);
        return ps[k % ps.len()].clone();
    }
    // larger bodies: rotations, and reversed rotations
    let rot = k % n;
    let mut v: Vec<usize> = (0..n).map(|i| (i + rot) % n).collect();
    if (k / n) % 2 == 1 {
        v.reverse();
    }
    v
}

fn observe(t: &TypeInfo, wd: &std::path::Path) -> Result<serde_json::Value, String> {
    std::env::set_current_dir(wd).map_err(|e| e.to_string())?;
    hooks::reset_registry();
    guarded(|| (t.export_all)())?;
    let tree = files_of(&snapshot(wd));
    let mut deps = guarded(|| Ok((t.deps)()))?;
    deps.sort();
    deps.dedup();
    Ok(json!({
        "tree": tree,
        "dependencies_as_set": deps.iter().map(|(n, p)| format!("{n}@{}", p.display())).collect::<Vec<_>>(),
        "export_to_string": guarded(|| (t.export_to_string)())?,
        "decl": guarded(|| Ok((t.decl)()))?,
        "name": guarded(|| Ok((t.name)()))?,
    }))
}

pub fn run(args: &[String]) {
    let slice = arg_value(args, "--slice").map_or(Slice { i: 0, n: 1 }, |s| Slice::parse(&s));
    let thorough = args.iter().any(|a| a == "--thorough");
    let mut rep = Report::new("determ");
    let mut scratch = Scratch::new("determ");
    let wd = scratch.fresh();
    std::env::set_current_dir(&wd).unwrap();
    std::env::remove_var("TS_RS_EXPORT_DIR");
    let uni = corpus::u::types();
    let singles = match universe_singles(&uni) {
        Ok(s) => s,
        Err(e) => {
            rep.machinery_errors.push(e);
            rep.finish();
        }
    };

    // ---- (a) visit order ----------------------------------------------------------------------------
    let mut subjects: Vec<(String, TypeInfo)> = vec![];
    for t in corpus::g::roots() {
        subjects.push((format!("G:{}", t.rust), t));
    }
    for u in &uni {
        subjects.push((format!("U:{}", u.info.rust), u.info.clone()));
    }
    for t in corpus::m::types() {
        subjects.push((format!("M:{}", t.rust), t));
    }
    let placement_cfgs: Vec<(&str, Vec<(&str, &str)>)> = vec![
        ("default", vec![]),
        ("all-shared", vec![("A", "s.ts"), ("B", "s.ts"), ("C", "s.ts"), ("B2", "s.ts"), ("G", "s.ts"), ("K", "s.ts"), ("Y", "s.ts")]),
        ("deps-shared", vec![("B", "d/s.ts"), ("C", "d/s.ts"), ("B2", "d/s.ts"), ("G", "d/s.ts"), ("Y", "d/s.ts")]),
    ];
    let n_orders = if thorough { 240 } else { 120 };
    let mut unit = 0;
    for (label, t) in &subjects {
        for (pl, places) in &placement_cfgs {
            if !label.starts_with("G:") && *pl != "default" {
                continue;
            }
            unit += 1;
            if !slice.mine(unit) {
                continue;
            }
            clear_places();
            for (k, v) in places {
                set_place(k, Some(v));
            }
            let mut outcomes: BTreeMap<String, Vec<usize>> = BTreeMap::new();
            let mut max_body = 0usize;
            for k in 0..n_orders {
                let seen_n = Arc::new(std::sync::Mutex::new(0usize));
                let sn = seen_n.clone();
                hooks::set_visit_order(Some(Arc::new(move |n| {
                    let mut g = sn.lock().unwrap();
                    *g = (*g).max(n);
                    nth_perm(n, k)
                })));
                let wd = scratch.fresh();
                let o = observe(t, &wd);
                // and once more: running twice must not matter
                let wd2 = scratch.fresh();
                let o2 = observe(t, &wd2);
                hooks::set_visit_order(None);
                let _ = std::fs::remove_dir_all(&wd);
                let _ = std::fs::remove_dir_all(&wd2);
                rep.evaluations += 2;
                rep.transitions += 2;
                max_body = max_body.max(*seen_n.lock().unwrap());
                match (o, o2) {
                    (Ok(a), Ok(b)) => {
                        if a != b {
                            rep.violation(
                                json!({"check": "second-run-differs", "subject_kind": &label[..1]}),
                                json!({"subject": label, "placements": pl, "order_index": k, "first": a, "second": b}),
                            );
                        }
                        outcomes.entry(a.to_string()).or_default().push(k);
                    }
                    (Err(e), _) | (_, Err(e)) => {
                        rep.violation(
                            json!({"check": "export-fails-under-visit-order", "subject_kind": &label[..1]}),
                            json!({"subject": label, "placements": pl, "order_index": k, "error": e}),
                        );
                    }
                }
                // bodies of <= 1 statement have a single order
                if max_body <= 1 && k >= 1 {
                    break;
                }
                if max_body == 2 && k >= 2 || max_body == 3 && k >= 6 || max_body == 4 && k >= 24 {
                    break;
                }
            }
            rep.count(&format!("subjects_with_max_body_{}", max_body.min(6)), 1);
            if outcomes.len() > 1 {
                let mut it = outcomes.iter();
                let (a, ka) = it.next().unwrap();
                let (b, kb) = it.next().unwrap();
                rep.violation(
                    json!({"check": "visit-order-changes-output", "subject_kind": &label[..1]}),
                    json!({"subject": label, "placements": pl, "distinct_outcomes": outcomes.len(),
                           "orders_a": &ka[..ka.len().min(5)], "orders_b": &kb[..kb.len().min(5)],
                           "outcome_a": serde_json::from_str::<serde_json::Value>(a).unwrap(),
                           "outcome_b": serde_json::from_str::<serde_json::Value>(b).unwrap()}),
                );
            }
            rep.states += outcomes.len() as u64;
            rep.distinct.insert(format!("{label}|{pl}"));
            if rep.samples.len() < 3 && max_body >= 3 {
                rep.sample(json!({"subject": label, "placements": pl, "largest_visit_body": max_body, "orders_tried": outcomes.values().map(|v| v.len()).sum::<usize>(), "distinct_outcomes": outcomes.len()}));
            }
        }
    }
    clear_places();

    // ---- (b) order of roots ---------------------------------------------------------------------------
    let k = if thorough { 4 } else { 3 };
    for set in subsets(uni.len(), k) {
        unit += 1;
        if !slice.mine(unit) {
            continue;
        }
        // every assignment of entry points to the roots: bit j set = `export()` (the type alone),
        // clear = `export_all()`; the outcome may depend on that assignment, never on the order
        for mask in 0..(1usize << k) {
            let mut model = BTreeSet::new();
            for (j, &t) in set.iter().enumerate() {
                if mask >> j & 1 == 1 {
                    let name = (uni[t].info.ident)();
                    model.insert(uni.iter().position(|u| (u.info.ident)() == name).unwrap());
                } else {
                    model.extend(closure_of(&uni, t));
                }
            }
            let expected = expected_tree(&uni, &singles, &model, "bindings/");
            let mut outcomes: BTreeSet<String> = BTreeSet::new();
            for perm in permutations(k) {
                // reversed visit orders only matter where dependencies are visited at all
                for rev in if mask == 0 { &[false, true][..] } else { &[false][..] } {
                    let rev = *rev;
                    hooks::set_visit_order(Some(Arc::new(move |n| {
                        let mut v: Vec<usize> = (0..n).collect();
                        if rev {
                            v.reverse();
                        }
                        v
                    })));
                    let wd = scratch.fresh();
                    std::env::set_current_dir(&wd).unwrap();
                    hooks::reset_registry();
                    let mut err = None;
                    for &j in &perm {
                        rep.transitions += 1;
                        let r = if mask >> j & 1 == 1 {
                            guarded(|| (uni[set[j]].info.export)())
                        } else {
                            guarded(|| (uni[set[j]].info.export_all)())
                        };
                        if let Err(e) = r {
                            err = Some(e);
                        }
                    }
                    hooks::set_visit_order(None);
                    rep.evaluations += 1;
                    let tree = files_of(&snapshot(&wd));
                    let _ = std::fs::remove_dir_all(&wd);
                    let names: Vec<String> = perm
                        .iter()
                        .map(|&j| format!("{}::{}", uni[set[j]].info.rust, if mask >> j & 1 == 1 { "export()" } else { "export_all()" }))
                        .collect();
                    if let Some(e) = err {
                        rep.violation(json!({"check": "export-fails"}), json!({"order": names, "error": e}));
                    }
                    if tree != expected {
                        rep.violation(
                            json!({"check": "root-order-tree-vs-reference"}),
                            json!({"order": names, "reversed_visits": rev, "got": tree, "expected": expected}),
                        );
                    }
                    outcomes.insert(serde_json::to_string(&tree).unwrap());
                }
            }
            rep.states += outcomes.len() as u64;
            if outcomes.len() != 1 {
                rep.violation(
                    json!({"check": "root-order-changes-output"}),
                    json!({"set": set.iter().map(|&t| uni[t].info.rust).collect::<Vec<_>>(), "entry_mask": mask, "distinct_outcomes": outcomes.len()}),
                );
            }
        }
        rep.count("root_sets", 1);
        rep.distinct.insert(format!("roots{set:?}"));
    }
    drop(scratch);
    rep.finish();
}

/// Dump every string-returning function of every corpus type and the tree of a full export
/// (used by the fresh-compilation cross-check).
pub fn dump(_args: &[String]) {
    let mut scratch = Scratch::new("dump");
    let wd = scratch.fresh();
    std::env::set_current_dir(&wd).unwrap();
    std::env::remove_var("TS_RS_EXPORT_DIR");
    clear_places();
    hooks::reset_registry();
    let mut out = serde_json::Map::new();
    let mut all: Vec<TypeInfo> = corpus::m::types();
    all.extend(corpus::u::types().into_iter().map(|u| u.info));
    all.extend(corpus::g::others().into_iter().map(|(_, t)| t));
    for t in &all {
        let v = json!({
            "name": guarded(|| Ok((t.name)())),
            "decl": guarded(|| Ok((t.decl)())),
            "export_to_string": guarded(|| (t.export_to_string)()),
        });
        out.insert(t.rust.to_string(), json!(format!("{v}")));
        let _ = guarded(|| (t.export_all)());
    }
    for t in corpus::g::roots() {
        let v = json!({
            "name": guarded(|| Ok((t.name)())),
            "decl": guarded(|| Ok((t.decl)())),
            "export_to_string": guarded(|| (t.export_to_string)()),
        });
        out.insert(t.rust.to_string(), json!(format!("{v}")));
    }
    out.insert("tree".into(), json!(files_of(&snapshot(&wd))));
    println!("{}", serde_json::Value::Object(out));
    drop(scratch);
}
