pub fn run(_args: &[String]) { unimplemented!() }
