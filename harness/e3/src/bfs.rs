//! C06 (histories, explicit-state BFS) and C17 (fault enumeration) on the real export entry points.

use std::{
    collections::{BTreeMap, BTreeSet, VecDeque},
    path::{Path, PathBuf},
};

use serde_json::{json, Value};
use ts_rs::__verif as hooks;

use crate::{
    common::{arg_value, files_of, guarded, set_place, snapshot, Node, Report, Scratch, Slice, Tree},
    corpus,
    sched::{closure_of, expected_tree, universe_singles},
};

#[derive(Clone, Copy, Debug, PartialEq, Eq, PartialOrd, Ord, Hash)]
pub enum Act {
    Export(usize),
    ExportAll(usize),
    /// (type, spelling index)
    ExportAllTo(usize, usize),
    /// export_all_to a second, different directory (`elsewhere`) in the same process
    ExportAllToOther(usize),
}

/// members of the second directory are kept in the same model set, offset by this
pub const OTHER: usize = 1000;

pub struct Config {
    pub env: &'static str,
    pub init: &'static str,
}

/// How `TS_RS_EXPORT_DIR` is set, and the directory (relative to the working directory) it denotes.
pub fn env_setting(kind: &str, wd: &Path) -> (Option<String>, &'static str) {
    match kind {
        "unset" => (None, "bindings"),
        "rel" => (Some("out".into()), "out"),
        "dotrel" => (Some("./out".into()), "out"),
        "abs" => (Some(wd.join("out").to_string_lossy().into_owned()), "out"),
        "dots" => (Some("x/../out".into()), "out"),
        "trailing" => (Some("out/".into()), "out"),
        // through a symbolic link: `lnk` -> `real` (created by `World::setup`)
        "link" => (Some("lnk/out".into()), "lnk/out"),
        other => panic!("unknown env kind {other}"),
    }
}

/// Spellings of the directory `d` (relative to `wd`) for `export_all_to`.
pub fn spellings(wd: &Path, d: &str, all: bool) -> Vec<String> {
    let abs = wd.join(d).to_string_lossy().into_owned();
    let mut v = vec![abs.clone(), format!("./{d}"), format!("x/../{d}")];
    if all {
        v.push(d.to_string());
        v.push(format!("{d}/"));
        v.push(format!("{}/x/../{d}", wd.to_string_lossy()));
        v.push(format!("./{d}/./"));
    }
    v
}

const GARBAGE: &str = "stale garbage that is not TypeScript {{{\n\n\n";

pub struct World<'a> {
    pub uni: &'a [corpus::u::U],
    pub singles: Vec<tsmodel::refmodel::Single>,
    pub cfg: &'a Config,
    pub all_spellings: bool,
    pub second_dir: bool,
}

impl World<'_> {
    /// Prepare a fresh working directory: cwd, env, registry, initial contents. Returns (wd, D).
    pub fn setup(&self, scratch: &mut Scratch) -> (PathBuf, &'static str, Tree) {
        let wd = scratch.fresh();
        std::env::set_current_dir(&wd).unwrap();
        std::fs::create_dir_all(wd.join("x")).unwrap();
        let (env, d) = env_setting(self.cfg.env, &wd);
        if self.cfg.env == "link" {
            std::fs::create_dir_all(wd.join("real")).unwrap();
            std::os::unix::fs::symlink("real", wd.join("lnk")).unwrap();
        }
        match env {
            Some(v) => std::env::set_var("TS_RS_EXPORT_DIR", v),
            None => std::env::remove_var("TS_RS_EXPORT_DIR"),
        }
        hooks::reset_registry();
        let dd = wd.join(d);
        match self.cfg.init {
            "empty" => {}
            "stale" => {
                for u in self.uni {
                    let p = dd.join(u.loc);
                    std::fs::create_dir_all(p.parent().unwrap()).unwrap();
                    std::fs::write(&p, GARBAGE).unwrap();
                }
                std::fs::create_dir_all(dd.join("unrelated/deep")).unwrap();
                std::fs::write(dd.join("unrelated/deep/readme.txt"), "keep me").unwrap();
                std::fs::write(dd.join("Other.ts"), "export type Other = number;\n").unwrap();
            }
            "previous" => {
                let all: BTreeSet<usize> = (0..self.uni.len()).collect();
                for (k, v) in expected_tree(self.uni, &self.singles, &all, "") {
                    let p = dd.join(k);
                    std::fs::create_dir_all(p.parent().unwrap()).unwrap();
                    std::fs::write(&p, v).unwrap();
                }
            }
            other => panic!("unknown init kind {other}"),
        }
        let initial = snapshot(&dd);
        (wd, d, initial)
    }

    pub fn actions(&self, wd: &Path, d: &str) -> Vec<Act> {
        let ns = spellings(wd, d, self.all_spellings).len();
        let mut v = vec![];
        for t in 0..self.uni.len() {
            v.push(Act::Export(t));
            v.push(Act::ExportAll(t));
            for s in 0..ns {
                v.push(Act::ExportAllTo(t, s));
            }
            if self.second_dir {
                v.push(Act::ExportAllToOther(t));
            }
        }
        v
    }

    pub fn apply(&self, a: Act, wd: &Path, d: &str) -> Result<(), String> {
        match a {
            Act::Export(t) => guarded(|| (self.uni[t].info.export)()),
            Act::ExportAll(t) => guarded(|| (self.uni[t].info.export_all)()),
            Act::ExportAllTo(t, s) => {
                let sp = spellings(wd, d, self.all_spellings)[s].clone();
                guarded(|| (self.uni[t].info.export_all_to)(Path::new(&sp)))
            }
            Act::ExportAllToOther(t) => {
                let sp = wd.join("elsewhere");
                guarded(|| (self.uni[t].info.export_all_to)(&sp))
            }
        }
    }

    pub fn model_add(&self, model: &mut BTreeSet<usize>, a: Act) {
        match a {
            Act::Export(t) => {
                // instantiations of one generic type are one declaration: first entry with that name
                let name = (self.uni[t].info.ident)();
                model.insert(self.uni.iter().position(|u| (u.info.ident)() == name).unwrap());
            }
            Act::ExportAll(t) | Act::ExportAllTo(t, _) => model.extend(closure_of(self.uni, t)),
            Act::ExportAllToOther(t) => model.extend(closure_of(self.uni, t).into_iter().map(|x| x + OTHER)),
        }
    }

    /// The tree of D expected for `model` on top of `initial`.
    /// The tree expected in the second directory.
    pub fn expected_other(&self, model: &BTreeSet<usize>) -> Tree {
        let other: BTreeSet<usize> = model.iter().filter(|&&x| x >= OTHER).map(|x| x - OTHER).collect();
        expected_tree(self.uni, &self.singles, &other, "")
            .into_iter()
            .map(|(k, v)| (k, Node::File(v.into_bytes())))
            .collect()
    }

    pub fn expected(&self, model: &BTreeSet<usize>, initial: &Tree) -> Tree {
        let mut t = initial.clone();
        let model: BTreeSet<usize> = model.iter().copied().filter(|&x| x < OTHER).collect();
        let model = &model;
        for (k, v) in expected_tree(self.uni, &self.singles, model, "") {
            // a file replaces an empty-directory marker of one of its ancestors
            let mut anc = Path::new(&k).parent();
            while let Some(a) = anc {
                t.remove(&a.to_string_lossy().into_owned());
                anc = a.parent();
            }
            t.insert(k, Node::File(v.into_bytes()));
        }
        t
    }

    pub fn act_desc(&self, a: Act, wd: &Path, d: &str) -> String {
        match a {
            Act::Export(t) => format!("{}::export()", self.uni[t].info.rust),
            Act::ExportAll(t) => format!("{}::export_all()", self.uni[t].info.rust),
            Act::ExportAllToOther(t) => format!("{}::export_all_to(\"<wd>/elsewhere\")", self.uni[t].info.rust),
            Act::ExportAllTo(t, s) => format!(
                "{}::export_all_to({:?})",
                self.uni[t].info.rust,
                spellings(wd, d, self.all_spellings)[s].replace(&*wd.to_string_lossy(), "<wd>")
            ),
        }
    }
}

pub fn act_code(a: Act) -> String {
    match a {
        Act::Export(t) => format!("export:{t}"),
        Act::ExportAll(t) => format!("export_all:{t}"),
        Act::ExportAllTo(t, s) => format!("export_all_to:{t}:{s}"),
        Act::ExportAllToOther(t) => format!("export_all_to_other:{t}"),
    }
}

pub fn act_parse(c: &str) -> Act {
    let p: Vec<&str> = c.split(':').collect();
    let n = |i: usize| p[i].parse::<usize>().expect("action code");
    match p[0] {
        "export" => Act::Export(n(1)),
        "export_all" => Act::ExportAll(n(1)),
        "export_all_to" => Act::ExportAllTo(n(1), n(2)),
        "export_all_to_other" => Act::ExportAllToOther(n(1)),
        other => panic!("unknown action {other}"),
    }
}

/// `e3 replay <file>`: re-execute one recorded history / schedule and print what happens.
pub fn replay(args: &[String]) {
    let text = std::fs::read_to_string(&args[0]).expect("replay file");
    let v: Value = serde_json::from_str(&text).expect("json");
    let ex = v["examples"].get(0).cloned().unwrap_or(v.clone());
    let r = &ex["replay"];
    match r["mode"].as_str() {
        Some("bfs") => {
            let uni = corpus::u::types();
            let mut scratch = Scratch::new("replay");
            let wd0 = scratch.fresh();
            std::env::set_current_dir(&wd0).unwrap();
            std::env::remove_var("TS_RS_EXPORT_DIR");
            let singles = universe_singles(&uni).expect("single-type outputs");
            let envs = ["unset", "rel", "dotrel", "abs", "dots", "trailing", "link"];
            let inits = ["empty", "stale", "previous"];
            let env = envs.iter().copied().find(|e| Some(*e) == r["env"].as_str()).expect("env");
            let init = inits.iter().copied().find(|e| Some(*e) == r["init"].as_str()).expect("init");
            let cfg = Config { env, init };
            let w = World { uni: &uni, singles, cfg: &cfg, all_spellings: r["all_spellings"].as_bool().unwrap_or(false), second_dir: true };
            let (wd, d, initial) = w.setup(&mut scratch);
            let mut model = BTreeSet::new();
            for c in r["history"].as_array().expect("history") {
                let a = act_parse(c.as_str().unwrap());
                let res = w.apply(a, &wd, d);
                w.model_add(&mut model, a);
                println!("{} -> {:?}", w.act_desc(a, &wd, d), res);
            }
            let got = snapshot(&wd.join(d));
            let exp = w.expected(&model, &initial);
            println!("tree equals reference model: {}", got == exp);
            if got != exp {
                println!("{}", serde_json::to_string_pretty(&diff_trees(&got, &exp)).unwrap());
            }
            let (go, eo) = (snapshot(&wd.join("elsewhere")), w.expected_other(&model));
            if go != eo {
                println!("second directory differs: {}", serde_json::to_string_pretty(&diff_trees(&go, &eo)).unwrap());
            }
        }
        Some("sched") => crate::sched::replay(r),
        _ => println!("this replay file carries no machine-replayable trace; its `examples` show the failing case (source / paths / values)"),
    }
}

fn entry_mix(h: &[Act]) -> Vec<&'static str> {
    let mut s = BTreeSet::new();
    for a in h {
        s.insert(match a {
            Act::Export(_) => "export",
            Act::ExportAll(_) => "export_all",
            Act::ExportAllTo(..) => "export_all_to",
            Act::ExportAllToOther(..) => "export_all_to_other_dir",
        });
    }
    s.into_iter().collect()
}

fn diff_trees(got: &Tree, exp: &Tree) -> Value {
    let mut d = serde_json::Map::new();
    for (k, v) in exp {
        match got.get(k) {
            None => {
                d.insert(k.clone(), json!({"missing": true}));
            }
            Some(g) if g != v => {
                let s = |n: &Node| match n {
                    Node::File(b) => String::from_utf8_lossy(b).into_owned(),
                    Node::Dir => "<dir>".into(),
                };
                d.insert(k.clone(), json!({"got": s(g), "expected": s(v)}));
            }
            _ => {}
        }
    }
    for k in got.keys() {
        if !exp.contains_key(k) {
            d.insert(k.clone(), json!({"unexpected": true}));
        }
    }
    Value::Object(d)
}

pub fn run(args: &[String]) {
    let depth: usize = arg_value(args, "--depth").map_or(3, |s| s.parse().unwrap());
    let envs: Vec<&'static str> = vec!["unset", "rel", "dotrel", "abs", "dots", "trailing", "link"];
    let inits: Vec<&'static str> = vec!["empty", "stale", "previous"];
    let slice = arg_value(args, "--slice").map_or(Slice { i: 0, n: 1 }, |s| Slice::parse(&s));
    let all_spellings = args.iter().any(|a| a == "--all-spellings");
    let second_dir = !args.iter().any(|a| a == "--one-dir");
    let max_states: usize = arg_value(args, "--max-states").map_or(usize::MAX, |s| s.parse().unwrap());
    let mut rep = Report::new("bfs");
    let uni = corpus::u::types();
    let mut scratch = Scratch::new("bfs");
    let wd0 = scratch.fresh();
    std::env::set_current_dir(&wd0).unwrap();
    std::env::remove_var("TS_RS_EXPORT_DIR");
    let singles = match universe_singles(&uni) {
        Ok(s) => s,
        Err(e) => {
            rep.machinery_errors.push(e);
            rep.finish();
        }
    };
    let mut cfg_no = 0;
    for env in &envs {
        for init in &inits {
            cfg_no += 1;
            if !slice.mine(cfg_no) {
                continue;
            }
            let cfg = Config { env, init };
            let w = World {
                uni: &uni,
                singles: singles.clone(),
                cfg: &cfg,
                all_spellings,
                second_dir,
            };
            bfs_one(&w, depth, max_states, &mut scratch, &mut rep);
        }
    }
    drop(scratch);
    rep.finish();
}

fn bfs_one(w: &World, depth: usize, max_states: usize, scratch: &mut Scratch, rep: &mut Report) {
    let mut seen: BTreeSet<String> = BTreeSet::new();
    let mut queue: VecDeque<Vec<Act>> = VecDeque::new();
    queue.push_back(vec![]);
    let mut model_to_tree: BTreeMap<Vec<usize>, BTreeSet<String>> = BTreeMap::new();
    let mut capped = false;
    let mut max_depth_seen = 0;
    while let Some(h) = queue.pop_front() {
        if h.len() >= depth {
            continue;
        }
        // enumerate actions in a fresh world to learn their number
        let (wd, d, _) = w.setup(scratch);
        let acts = w.actions(&wd, d);
        let _ = std::fs::remove_dir_all(&wd);
        for a in acts {
            if seen.len() >= max_states {
                capped = true;
                break;
            }
            let (wd, d, initial) = w.setup(scratch);
            let mut model = BTreeSet::new();
            let mut hist = h.clone();
            hist.push(a);
            let mut failed = None;
            for (i, &b) in hist.iter().enumerate() {
                if let Err(e) = w.apply(b, &wd, d) {
                    failed = Some((i, e));
                    break;
                }
                w.model_add(&mut model, b);
            }
            rep.transitions += 1;
            rep.evaluations += 1;
            let hd: Vec<String> = hist.iter().map(|&b| w.act_desc(b, &wd, d)).collect();
            let hcode: Vec<String> = hist.iter().map(|&b| act_code(b)).collect();
            let class_base = json!({"env": w.cfg.env, "init": w.cfg.init, "entries": entry_mix(&hist)});
            if let Some((i, e)) = failed {
                let mut c = class_base.clone();
                c["check"] = json!("export-fails");
                rep.violation(c, json!({"history": hd, "replay": {"mode": "bfs", "env": w.cfg.env, "init": w.cfg.init, "all_spellings": w.all_spellings, "history": hcode}, "failed_step": i, "error": e}));
                let _ = std::fs::remove_dir_all(&wd);
                continue;
            }
            let got = snapshot(&wd.join(d));
            let exp = w.expected(&model, &initial);
            let reg = hooks::registry_snapshot()
                .map(|r| {
                    r.into_iter()
                        .map(|(p, n)| (p.to_string_lossy().replace(&*wd.to_string_lossy(), "<wd>"), n))
                        .collect::<Vec<_>>()
                })
                .unwrap_or_default();
            if got != exp {
                let mut c = class_base.clone();
                c["check"] = json!("tree-vs-reference");
                rep.violation(
                    c,
                    json!({"history": hd, "replay": {"mode": "bfs", "env": w.cfg.env, "init": w.cfg.init, "all_spellings": w.all_spellings, "history": hcode}, "model": model.iter().filter(|&&t| t < OTHER).map(|&t| w.uni[t].info.rust).collect::<Vec<_>>(), "diff": diff_trees(&got, &exp), "registry": reg}),
                );
            }
            let got_other = snapshot(&wd.join("elsewhere"));
            let exp_other = w.expected_other(&model);
            if got_other != exp_other {
                let mut c = class_base.clone();
                c["check"] = json!("second-directory-tree-vs-reference");
                rep.violation(
                    c,
                    json!({"history": hd, "replay": {"mode": "bfs", "env": w.cfg.env, "init": w.cfg.init, "all_spellings": w.all_spellings, "history": hcode}, "model": model.iter().map(|&t| if t >= OTHER { format!("elsewhere:{}", w.uni[t - OTHER].info.rust) } else { w.uni[t].info.rust.to_string() }).collect::<Vec<_>>(), "diff": diff_trees(&got_other, &exp_other)}),
                );
            }
            let gk = format!("{}|{}", serde_json::to_string(&files_of(&got)).unwrap(), serde_json::to_string(&files_of(&got_other)).unwrap());
            model_to_tree
                .entry(model.iter().copied().collect())
                .or_default()
                .insert(gk.clone());
            let key = format!("{:?}|{:?}|{}", model, reg, gk);
            if seen.insert(key.clone()) {
                rep.distinct.insert(format!("{}/{}:{}", w.cfg.env, w.cfg.init, key));
                max_depth_seen = max_depth_seen.max(hist.len());
                if rep.samples.len() < 3 && hist.len() == depth {
                    rep.sample(json!({"env": w.cfg.env, "init": w.cfg.init, "history": hd, "files": files_of(&got).keys().collect::<Vec<_>>()}));
                }
                queue.push_back(hist);
            }
            let _ = std::fs::remove_dir_all(&wd);
        }
    }
    rep.states += seen.len() as u64;
    rep.count("configs", 1);
    rep.count("model_sets_reached", model_to_tree.len() as u64);
    rep.count(
        "model_sets_reached_by_2plus_histories_with_1_tree",
        model_to_tree.values().filter(|s| s.len() == 1).count() as u64,
    );
    if capped {
        rep.count("configs_capped_by_max_states", 1);
    }
    rep.count(&format!("max_depth_{}", max_depth_seen), 1);
    for (m, trees) in &model_to_tree {
        if trees.len() > 1 {
            rep.violation(
                json!({"check": "same-set-different-tree", "env": w.cfg.env, "init": w.cfg.init}),
                json!({"model": m.iter().map(|&t| if t >= OTHER { format!("elsewhere:{}", w.uni[t - OTHER].info.rust) } else { w.uni[t].info.rust.to_string() }).collect::<Vec<_>>(), "distinct_trees": trees.len()}),
            );
        }
    }
}

// =================================================================================================
// C17 — fault enumeration
// =================================================================================================

#[derive(Clone, Debug)]
enum Fault {
    /// the target file path of universe type `t` is a directory
    TargetIsDir(usize),
    /// the target file of `t` exists already (a type sharing the file was exported into it earlier in
    /// the history, `t` itself was not) and is replaced by a directory; removal puts the file back
    TargetReplacedByDir(usize),
    /// the path component `comp` (relative to wd) is a regular file
    ParentIsFile(String),
    /// the step is replaced by an export of a non-exportable root
    NotExportable(usize, bool),
    /// the step is replaced by an export of UP placed above the root; bool = use export() instead of export_all()
    DotDot(u8),
}

pub fn run_faults(args: &[String]) {
    let len: usize = arg_value(args, "--len").map_or(2, |s| s.parse().unwrap());
    let slice = arg_value(args, "--slice").map_or(Slice { i: 0, n: 1 }, |s| Slice::parse(&s));
    let mut rep = Report::new("faults");
    let uni = corpus::u::types();
    let mut scratch = Scratch::new("faults");
    let wd0 = scratch.fresh();
    std::env::set_current_dir(&wd0).unwrap();
    std::env::remove_var("TS_RS_EXPORT_DIR");
    let singles = match universe_singles(&uni) {
        Ok(s) => s,
        Err(e) => {
            rep.machinery_errors.push(e);
            rep.finish();
        }
    };
    let nonexp = corpus::u::non_exportable();
    let up = corpus::u::up();
    let escape_name = format!("tsrs_verif_escape_{}.ts", std::process::id());
    let mut case_no = 0usize;
    for env in ["unset", "rel", "abs"] {
        let cfg = Config { env, init: "empty" };
        let w = World {
            uni: &uni,
            singles: singles.clone(),
            cfg: &cfg,
            all_spellings: false,
            second_dir: false,
        };
        // histories over a reduced action set: export / export_all / export_all_to(abs spelling)
        let (wd, d, _) = w.setup(&mut scratch);
        let base_acts: Vec<Act> = w
            .actions(&wd, d)
            .into_iter()
            .filter(|a| !matches!(a, Act::ExportAllTo(_, s) if *s != 1))
            .collect();
        let _ = std::fs::remove_dir_all(&wd);
        let mut histories: Vec<Vec<Act>> = vec![vec![]];
        for _ in 0..len {
            let mut next = vec![];
            for h in &histories {
                for &a in &base_acts {
                    let mut x = h.clone();
                    x.push(a);
                    next.push(x);
                }
            }
            histories = next;
        }
        for hist in histories {
            case_no += 1;
            if !slice.mine(case_no) {
                continue;
            }
            for fi in 0..hist.len() {
                // faults applicable before step `fi`
                let (wd, d, _) = w.setup(&mut scratch);
                let mut model = BTreeSet::new();
                let mut ok = true;
                for &b in &hist[..fi] {
                    if w.apply(b, &wd, d).is_err() {
                        ok = false;
                    }
                    w.model_add(&mut model, b);
                }
                if !ok {
                    let _ = std::fs::remove_dir_all(&wd);
                    continue; // fault-free failures are C06's business
                }
                let dd = wd.join(d);
                let mut step_model = BTreeSet::new();
                w.model_add(&mut step_model, hist[fi]);
                let mut faults: Vec<Fault> = vec![];
                for &t in &step_model {
                    let target = dd.join(uni[t].loc);
                    if target.is_file() && !model.contains(&t) {
                        faults.push(Fault::TargetReplacedByDir(t));
                    }
                    if !target.exists() {
                        faults.push(Fault::TargetIsDir(t));
                        // every missing ancestor strictly below wd
                        let mut anc = target.parent();
                        while let Some(a) = anc {
                            if a == wd {
                                break;
                            }
                            if !a.exists() {
                                let rel = a.strip_prefix(&wd).unwrap().to_string_lossy().into_owned();
                                if !faults.iter().any(|f| matches!(f, Fault::ParentIsFile(r) if *r == rel)) {
                                    faults.push(Fault::ParentIsFile(rel));
                                }
                            }
                            anc = a.parent();
                        }
                    }
                }
                for k in 0..nonexp.len() {
                    faults.push(Fault::NotExportable(k, false));
                    faults.push(Fault::NotExportable(k, true));
                }
                faults.push(Fault::DotDot(0));
                faults.push(Fault::DotDot(1));
                faults.push(Fault::DotDot(2));
                let _ = std::fs::remove_dir_all(&wd);

                for fault in faults {
                    rep.evaluations += 1;
                    let (wd, d, _) = w.setup(&mut scratch);
                    let dd = wd.join(d);
                    let mut model = BTreeSet::new();
                    for &b in &hist[..fi] {
                        let _ = w.apply(b, &wd, d);
                        w.model_add(&mut model, b);
                        rep.transitions += 1;
                    }
                    let hd: Vec<String> = hist.iter().map(|&b| w.act_desc(b, &wd, d)).collect();
                    let fkind = match &fault {
                        Fault::TargetIsDir(_) => "target-is-directory",
                        Fault::TargetReplacedByDir(_) => "shared-target-replaced-by-directory",
                        Fault::ParentIsFile(_) => "parent-is-regular-file",
                        Fault::NotExportable(..) => "root-not-exportable",
                        Fault::DotDot(0) => "dotdot-above-root/export_all",
                        Fault::DotDot(1) => "dotdot-above-root/export_all_to",
                        Fault::DotDot(_) => "dotdot-above-root/export",
                    };
                    rep.count(&format!("faults.{fkind}"), 1);
                    let entry = entry_mix(&hist[fi..=fi])[0];
                    let class = |check: &str| json!({"check": check, "fault": fkind, "entry": entry});
                    let detail = |extra: Value| json!({"env": env, "history": hd, "fault_before_step": fi, "fault": format!("{fault:?}"), "info": extra});
                    // ---- inject
                    let before_wd = snapshot(&wd);
                    let mut obstacle: Option<PathBuf> = None;
                    let mut replaced = false;
                    let mut put_back: Option<Vec<u8>> = None;
                    let r = match &fault {
                        Fault::TargetReplacedByDir(t) => {
                            let p = dd.join(uni[*t].loc);
                            put_back = Some(std::fs::read(&p).unwrap());
                            std::fs::remove_file(&p).unwrap();
                            std::fs::create_dir(&p).unwrap();
                            obstacle = Some(p);
                            w.apply(hist[fi], &wd, d)
                        }
                        Fault::TargetIsDir(t) => {
                            let p = dd.join(uni[*t].loc);
                            std::fs::create_dir_all(&p).unwrap();
                            obstacle = Some(p);
                            w.apply(hist[fi], &wd, d)
                        }
                        Fault::ParentIsFile(rel) => {
                            let p = wd.join(rel);
                            std::fs::create_dir_all(p.parent().unwrap()).unwrap();
                            std::fs::write(&p, "i am a regular file").unwrap();
                            obstacle = Some(p);
                            w.apply(hist[fi], &wd, d)
                        }
                        Fault::NotExportable(k, all) => {
                            replaced = true;
                            if *all {
                                guarded(|| (nonexp[*k].export_all)())
                            } else {
                                guarded(|| (nonexp[*k].export)())
                            }
                        }
                        Fault::DotDot(kind) => {
                            replaced = true;
                            let ups = "../".repeat(wd.components().count() + 3);
                            set_place("UP", Some(&format!("{ups}{escape_name}")));
                            let r = match kind {
                                0 => guarded(|| (up.export_all)()),
                                1 => guarded(|| (up.export_all_to)(&dd)),
                                _ => guarded(|| (up.export)()),
                            };
                            set_place("UP", None);
                            r
                        }
                    };
                    rep.transitions += 1;
                    let with_obstacle = snapshot(&wd);
                    // (1) an error value, not a panic, not success
                    match &r {
                        Ok(()) => rep.violation(class("obstructed-export-succeeds"), detail(json!({}))),
                        Err(e) if e.starts_with("PANIC") => {
                            rep.violation(class("obstructed-export-panics"), detail(json!({"panic": e})))
                        }
                        Err(_) => {}
                    }
                    let escaped = Path::new("/").join(&escape_name);
                    if escaped.exists() {
                        let _ = std::fs::remove_file(&escaped);
                        rep.violation(class("wrote-above-export-dir"), detail(json!({"file": escaped.to_string_lossy()})));
                    }
                    // (2) nothing outside the step's legitimate targets changed
                    let legit: BTreeSet<String> = if replaced {
                        BTreeSet::new()
                    } else {
                        step_model.iter().map(|&t| format!("{d}/{}", uni[t].loc)).collect()
                    };
                    let mut base = before_wd.clone();
                    if let Some(o) = &obstacle {
                        // the obstacle itself is ours
                        let rel = o.strip_prefix(&wd).unwrap().to_string_lossy().into_owned();
                        if o.is_dir() {
                            base.insert(rel.clone(), Node::Dir);
                        } else {
                            base.insert(rel.clone(), Node::File(b"i am a regular file".to_vec()));
                        }
                        let mut anc = Path::new(&rel).parent();
                        while let Some(a) = anc {
                            base.remove(&a.to_string_lossy().into_owned());
                            anc = a.parent();
                        }
                    }
                    for (k, v) in &with_obstacle {
                        let is_legit = legit.contains(k);
                        match base.get(k) {
                            Some(b) if b == v => {}
                            _ if is_legit => {}
                            _ if *v == Node::Dir => {} // freshly created empty parent directories are harmless
                            _ => {
                                rep.violation(class("failed-export-touched-other-file"), detail(json!({"path": k})));
                                break;
                            }
                        }
                    }
                    for k in base.keys() {
                        if !with_obstacle.contains_key(k) && base[k] != Node::Dir {
                            rep.violation(class("failed-export-removed-file"), detail(json!({"path": k})));
                            break;
                        }
                    }
                    // ---- remove the obstacle (a replaced file comes back as it was)
                    if let Some(o) = &obstacle {
                        if o.is_dir() {
                            let _ = std::fs::remove_dir_all(o);
                        } else {
                            let _ = std::fs::remove_file(o);
                        }
                        if let Some(bytes) = &put_back {
                            std::fs::write(o, bytes).unwrap();
                        }
                    }
                    // (3) registry names only files that exist and hold the declaration
                    if hooks::registry_is_poisoned() {
                        rep.violation(class("registry-lock-poisoned"), detail(json!({})));
                    }
                    if let Some(reg) = hooks::registry_snapshot() {
                        for (p, names) in reg {
                            let text = std::fs::read_to_string(&p).unwrap_or_default();
                            for n in names {
                                if !p.is_file() || !text.contains(&format!("export type {n}")) {
                                    rep.violation(
                                        class("registry-records-unwritten-declaration"),
                                        detail(json!({"path": p.to_string_lossy().replace(&*wd.to_string_lossy(), "<wd>"), "name": n})),
                                    );
                                }
                            }
                        }
                    }
                    // ---- retry, complete
                    let mut completion_err = None;
                    for &b in &hist[fi..] {
                        rep.transitions += 1;
                        if let Err(e) = w.apply(b, &wd, d) {
                            completion_err = Some(e);
                            break;
                        }
                        w.model_add(&mut model, b);
                    }
                    if let Some(e) = completion_err {
                        rep.violation(class("retry-after-removal-fails"), detail(json!({"error": e})));
                    } else {
                        let got = snapshot(&dd);
                        let exp = w.expected(&model, &Tree::new());
                        if got != exp {
                            rep.violation(
                                class("final-tree-differs-from-fault-free-run"),
                                detail(json!({"diff": diff_trees(&got, &exp)})),
                            );
                        }
                    }
                    rep.distinct.insert(format!("{env}|{hd:?}|{fi}|{fault:?}"));
                    if rep.samples.len() < 4 {
                        rep.sample(detail(json!({"result_of_obstructed_call": format!("{r:?}")})));
                    }
                    let _ = std::fs::remove_dir_all(&wd);
                }
            }
        }
    }
    drop(scratch);
    rep.finish();
}
