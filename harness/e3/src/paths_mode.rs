//! C08: exhaustive enumeration of (importing file, imported file) pairs through the real
//! `import_path`, against an independent lexical resolver.

use std::path::Path;

use serde_json::json;
use ts_rs::__verif as hooks;
use tsmodel::paths::{join, normalize, resolve_spec, spec_syntax_errors};

use crate::common::{arg_value, guarded, Report, Scratch, Slice};

// `A` differs from `a` in case only; `a.d.ts` ends in the declaration-file suffix
const DIRS: &[&str] = &["a", "A", "a.b", "x.ts", "ts", ".hid", ".", ".."];
const FILES: &[&str] = &["A.ts", "b.c.ts", "x.ts.ts", "ts.ts", ".h.ts", "Ats", "a.d.ts"];

/// sub-alphabet for the deeper pass: one plain name, one `.ts`-suffixed name, `.` and `..`
const DIRS_SMALL: &[&str] = &["a", "A", "x.ts", ".", ".."];

fn rel_paths(depth: usize, alphabet: &[&str]) -> Vec<String> {
    let mut dirs: Vec<String> = vec![String::new()];
    let mut frontier = vec![String::new()];
    for _ in 0..depth {
        let mut next = vec![];
        for d in &frontier {
            for c in alphabet {
                next.push(format!("{d}{c}/"));
            }
        }
        dirs.extend(next.iter().cloned());
        frontier = next;
    }
    let mut out = vec![];
    for d in dirs {
        for f in FILES {
            out.push(format!("{d}{f}"));
        }
    }
    out
}

fn file_kind(p: &str) -> &'static str {
    let f = p.rsplit('/').next().unwrap();
    match f {
        "A.ts" => "plain.ts",
        "b.c.ts" => "dotted.ts",
        "x.ts.ts" => "double-ts-suffix",
        "ts.ts" => "stem-is-ts",
        ".h.ts" => "dot-first",
        "a.d.ts" => "declaration-file-suffix",
        _ => "no-ts-extension",
    }
}

pub fn run(args: &[String]) {
    let depth: usize = arg_value(args, "--depth").map_or(3, |s| s.parse().unwrap());
    let slice = arg_value(args, "--slice").map_or(Slice { i: 0, n: 1 }, |s| Slice::parse(&s));
    let esm = cfg!(feature = "import-esm");
    let mut rep = Report::new("paths");
    let mut scratch = Scratch::new("paths");
    let root = scratch.fresh();
    let alphabet = if args.iter().any(|a| a == "--small-dirs") { DIRS_SMALL } else { DIRS };
    let paths = rel_paths(depth, alphabet);
    let all_bases = ["./bindings", "/abs/dir", "./x/../y", "/b", "rel/dir", "bindings/", "/"];
    let bases: &[&str] = if args.iter().any(|a| a == "--fewer-bases") { &all_bases[..4] } else { &all_bases[..] };
    let cwds = ["c1", "c1/c2/c3"];
    let mut unit = 0usize;
    for cwd_rel in cwds {
        let cwd = root.join(cwd_rel);
        std::fs::create_dir_all(&cwd).unwrap();
        std::env::set_current_dir(&cwd).unwrap();
        let cwd_s = cwd.to_string_lossy().into_owned();
        for base in bases.iter().copied() {
            // absolute, normalised location of every path (None = climbs above the root)
            let full: Vec<String> = paths.iter().map(|p| join(base, p)).collect();
            let abs: Vec<Option<String>> = full
                .iter()
                .map(|f| normalize(&join(&cwd_s, f)))
                .collect();
            for (fi, from) in full.iter().enumerate() {
                unit += 1;
                if !slice.mine(unit) {
                    continue;
                }
                let from_p = Path::new(from);
                for (ii, import) in full.iter().enumerate() {
                    rep.evaluations += 1;
                    let r = guarded(|| {
                        hooks::import_path(from_p, Path::new(import)).map_err(|e| format!("{e:?}"))
                    });
                    let class = |check: &str| {
                        json!({"check": check, "imported_file": file_kind(import), "esm": esm})
                    };
                    let detail = |extra: serde_json::Value| {
                        json!({"cwd": cwd_rel, "base": base, "from": from, "import": import, "info": extra})
                    };
                    let (af, ai) = (&abs[fi], &abs[ii]);
                    match (&r, af, ai) {
                        (Err(e), _, _) if e.starts_with("PANIC") => {
                            rep.violation(class("import-path-panics"), detail(json!({"panic": e})));
                        }
                        (_, None, _) | (_, _, None) => {
                            rep.count("pairs_above_root_not_compared", 1);
                        }
                        (Err(e), Some(_), Some(_)) => {
                            rep.violation(class("import-path-fails"), detail(json!({"error": e})));
                        }
                        (Ok(spec), Some(af), Some(ai)) => {
                            let mut errs = spec_syntax_errors(spec, esm);
                            if spec.trim_end_matches(".js").ends_with(".ts") && file_kind(import) != "double-ts-suffix" {
                                errs.push(format!("specifier {spec:?} carries a .ts extension"));
                            }
                            if !errs.is_empty() {
                                rep.violation(class("specifier-syntax"), detail(json!({"spec": spec, "problems": errs})));
                            } else if file_kind(import) == "no-ts-extension" {
                                // a file without .ts extension cannot be named by any specifier
                                rep.count("pairs_import_without_ts_extension_not_resolved", 1);
                            } else {
                                let res = resolve_spec(af, spec, esm);
                                if res.as_deref() != Some(ai.as_str()) {
                                    rep.violation(
                                        class("specifier-resolves-elsewhere"),
                                        detail(json!({"spec": spec, "resolves_to": res, "dependency_file": ai, "importer": af})),
                                    );
                                } else {
                                    rep.count("pairs_resolved_correctly", 1);
                                }
                            }
                            if rep.samples.len() < 5 && fi % 97 == 3 && ii % 89 == 5 {
                                rep.sample(detail(json!({"spec": spec})));
                            }
                        }
                    }
                }
            }
            rep.count("configs(cwd x base)", 1);
        }
    }
    rep.count("paths_per_config", paths.len() as u64);
    // distinct = distinct relative path shapes on either side
    for p in &paths {
        rep.distinct.insert(p.clone());
    }
    std::env::set_current_dir("/").unwrap();
    drop(scratch);
    rep.finish();
}
