//! C05 / C13 (schedules): stateless, preemption-bounded exploration of every interleaving of 2-3
//! real threads running real exports. Only the thread holding the baton runs; a thread standing
//! before the registry lock is enabled iff the *real* mutex can be taken right now.

use std::{
    cell::Cell,
    collections::{BTreeMap, BTreeSet},
    sync::{Arc, Condvar, Mutex},
    time::Duration,
};

use serde_json::{json, Value};
use ts_rs::__verif as hooks;
use tsmodel::refmodel::{expected_file, split_single, Single};

use crate::{
    common::{arg_value, files_of, guarded, snapshot, Report, Scratch, Slice},
    corpus,
};

#[derive(Clone, Copy, PartialEq, Debug)]
enum W {
    Running,
    Parked(&'static str),
    Done,
}

struct St {
    w: Vec<W>,
    grant: Option<usize>,
}

struct Ctl {
    m: Mutex<St>,
    cv: Condvar,
}

thread_local! {
    static ME: Cell<Option<usize>> = const { Cell::new(None) };
}

static CTL: Mutex<Option<Arc<Ctl>>> = Mutex::new(None);

fn hook(point: &'static str) {
    let me = match ME.with(|m| m.get()) {
        Some(me) => me,
        None => return,
    };
    let ctl = CTL.lock().unwrap().clone().expect("scheduler not installed");
    let mut st = ctl.m.lock().unwrap();
    st.w[me] = W::Parked(point);
    ctl.cv.notify_all();
    while st.grant != Some(me) {
        st = ctl.cv.wait(st).unwrap();
    }
    st.grant = None;
    st.w[me] = W::Running;
}

#[derive(Clone, Debug)]
pub struct Decision {
    enabled: Vec<usize>,
    chosen: usize, // index into `enabled`
    current_enabled: bool,
    points: Vec<String>,
}

#[derive(Clone, Copy, Debug)]
pub enum Entry {
    Export,
    ExportAll,
}

/// one operation of a thread: (index into the universe, entry point)
pub type Op = (usize, Entry);

pub struct Exec {
    decisions: Vec<Decision>,
    results: Vec<Vec<Result<(), String>>>,
    tree: BTreeMap<String, String>,
    deadlock: bool,
}

const WATCHDOG: Duration = Duration::from_secs(20);

fn run_one(
    uni: &[corpus::u::U],
    program: &[Vec<Op>],
    prefix: &[usize],
    scratch: &mut Scratch,
) -> Result<Exec, String> {
    let wd = scratch.fresh();
    std::env::set_current_dir(&wd).map_err(|e| e.to_string())?;
    hooks::reset_registry();
    let n = program.len();
    let ctl = Arc::new(Ctl {
        m: Mutex::new(St {
            w: vec![W::Running; n],
            grant: None,
        }),
        cv: Condvar::new(),
    });
    *CTL.lock().unwrap() = Some(ctl.clone());
    let results: Arc<Mutex<Vec<Vec<Result<(), String>>>>> =
        Arc::new(Mutex::new(vec![vec![]; n]));
    let mut handles = vec![];
    for (i, ops) in program.iter().enumerate() {
        let ops: Vec<(fn() -> Result<(), String>, Entry)> = ops
            .iter()
            .map(|(t, e)| {
                (
                    match e {
                        Entry::Export => uni[*t].info.export,
                        Entry::ExportAll => uni[*t].info.export_all,
                    },
                    *e,
                )
            })
            .collect();
        let ctl = ctl.clone();
        let results = results.clone();
        handles.push(std::thread::spawn(move || {
            ME.with(|m| m.set(Some(i)));
            hook("start");
            for (f, _) in ops {
                let r = guarded(f);
                results.lock().unwrap()[i].push(r);
            }
            ME.with(|m| m.set(None));
            let mut st = ctl.m.lock().unwrap();
            st.w[i] = W::Done;
            ctl.cv.notify_all();
        }));
    }
    let mut decisions: Vec<Decision> = vec![];
    let mut current: Option<usize> = None;
    let mut deadlock = false;
    loop {
        let mut st = ctl.m.lock().unwrap();
        let start = std::time::Instant::now();
        while st.w.iter().any(|w| *w == W::Running) || st.grant.is_some() {
            let (g, to) = ctl.cv.wait_timeout(st, Duration::from_millis(500)).unwrap();
            st = g;
            if to.timed_out() && start.elapsed() > WATCHDOG {
                return Err(format!(
                    "watchdog: a granted step did not reach its next scheduling point; prefix={prefix:?} decisions={}",
                    decisions.len()
                ));
            }
        }
        if st.w.iter().all(|w| *w == W::Done) {
            break;
        }
        let lock_free = hooks::registry_is_free();
        let mut enabled: Vec<usize> = (0..n)
            .filter(|&i| match st.w[i] {
                W::Parked("lock") => lock_free,
                W::Parked(_) => true,
                _ => false,
            })
            .collect();
        if enabled.is_empty() {
            deadlock = true;
            break;
        }
        let current_enabled = current.map_or(false, |c| enabled.contains(&c));
        if current_enabled {
            let c = current.unwrap();
            enabled.retain(|&i| i != c);
            enabled.insert(0, c);
        }
        let step = decisions.len();
        let chosen = if step < prefix.len() { prefix[step] } else { 0 };
        if chosen >= enabled.len() {
            return Err(format!(
                "replay divergence at step {step}: choice {chosen} but only {} enabled; prefix={prefix:?}",
                enabled.len()
            ));
        }
        let points = (0..n)
            .map(|i| match st.w[i] {
                W::Parked(p) => p.to_string(),
                W::Done => "done".into(),
                W::Running => "?".into(),
            })
            .collect();
        decisions.push(Decision {
            enabled: enabled.clone(),
            chosen,
            current_enabled,
            points,
        });
        let t = enabled[chosen];
        current = Some(t);
        st.grant = Some(t);
        ctl.cv.notify_all();
    }
    if deadlock {
        // threads are stuck for good; the caller reports and terminates the process
        return Ok(Exec {
            decisions,
            results: results.lock().unwrap().clone(),
            tree: BTreeMap::new(),
            deadlock: true,
        });
    }
    for h in handles {
        let _ = h.join();
    }
    *CTL.lock().unwrap() = None;
    let tree = files_of(&snapshot(&wd));
    let _ = std::fs::remove_dir_all(&wd);
    let results = results.lock().unwrap().clone();
    Ok(Exec {
        decisions,
        results,
        tree,
        deadlock: false,
    })
}

fn preemptions(ds: &[Decision]) -> usize {
    ds.iter()
        .filter(|d| d.current_enabled && d.chosen != 0)
        .count()
}

pub fn expected_tree(
    uni: &[corpus::u::U],
    singles: &[Single],
    model: &BTreeSet<usize>,
    base: &str,
) -> BTreeMap<String, String> {
    let mut by_loc: BTreeMap<&str, Vec<Single>> = BTreeMap::new();
    for &i in model {
        by_loc.entry(uni[i].loc).or_default().push(singles[i].clone());
    }
    by_loc
        .into_iter()
        .map(|(loc, ms)| (format!("{base}{loc}"), expected_file(&ms)))
        .collect()
}

pub fn closure_of(uni: &[corpus::u::U], t: usize) -> BTreeSet<usize> {
    uni[t]
        .closure
        .iter()
        .map(|n| {
            uni.iter()
                .position(|u| (u.info.ident)() == *n)
                .expect("closure names a universe type")
        })
        .collect()
}

pub fn universe_singles(uni: &[corpus::u::U]) -> Result<Vec<Single>, String> {
    uni.iter()
        .map(|u| {
            let s = guarded(|| (u.info.export_to_string)())?;
            split_single(&(u.info.ident)(), &s)
        })
        .collect()
}

fn program_desc(uni: &[corpus::u::U], program: &[Vec<Op>]) -> Value {
    json!(program
        .iter()
        .map(|ops| ops
            .iter()
            .map(|(t, e)| format!("{:?}({})", e, uni[*t].info.rust))
            .collect::<Vec<_>>())
        .collect::<Vec<_>>())
}

fn program_code(program: &[Vec<Op>]) -> Value {
    json!(program
        .iter()
        .map(|ops| ops.iter().map(|(t, e)| format!("{}:{t}", match e { Entry::Export => "export", Entry::ExportAll => "export_all" })).collect::<Vec<_>>())
        .collect::<Vec<_>>())
}

/// Re-execute one recorded schedule (twice) and print the trace and the resulting tree.
pub fn replay(r: &Value) {
    let uni = corpus::u::types();
    let mut scratch = Scratch::new("replay-sched");
    let wd = scratch.fresh();
    std::env::set_current_dir(&wd).unwrap();
    std::env::remove_var("TS_RS_EXPORT_DIR");
    let singles = universe_singles(&uni).expect("single-type outputs");
    let program: Vec<Vec<Op>> = r["program"]
        .as_array()
        .expect("program")
        .iter()
        .map(|ops| {
            ops.as_array()
                .unwrap()
                .iter()
                .map(|o| {
                    let (k, t) = o.as_str().unwrap().split_once(':').unwrap();
                    (t.parse().unwrap(), if k == "export" { Entry::Export } else { Entry::ExportAll })
                })
                .collect()
        })
        .collect();
    let schedule: Vec<usize> = r["schedule"].as_array().expect("schedule").iter().map(|x| x.as_u64().unwrap() as usize).collect();
    let mut model = BTreeSet::new();
    for ops in &program {
        for (t, e) in ops {
            match e {
                Entry::Export => {
                    model.insert(*t);
                }
                Entry::ExportAll => model.extend(closure_of(&uni, *t)),
            }
        }
    }
    let expected = expected_tree(&uni, &singles, &model, "bindings/");
    hooks::set_sched_hook(Some(Arc::new(hook)));
    for round in 0..2 {
        match run_one(&uni, &program, &schedule, &mut scratch) {
            Ok(x) => {
                let trace: Vec<String> = x.decisions.iter().map(|d| format!("t{}@{}", d.enabled[d.chosen], d.points[d.enabled[d.chosen]])).collect();
                println!("run {round}: {} scheduling decisions: {}", x.decisions.len(), trace.join(" "));
                println!("run {round}: results {:?}", x.results);
                println!("run {round}: tree equals reference model: {}", x.tree == expected);
                if x.tree != expected {
                    println!("got: {}", serde_json::to_string_pretty(&x.tree).unwrap());
                    println!("expected: {}", serde_json::to_string_pretty(&expected).unwrap());
                }
            }
            Err(e) => println!("run {round}: could not replay: {e}"),
        }
    }
    hooks::set_sched_hook(None);
}

fn programs(uni: &[corpus::u::U], thorough: bool) -> (Vec<Vec<Vec<Op>>>, std::ops::Range<usize>) {
    let idx = |n: &str| uni.iter().position(|u| u.info.rust.starts_with(n)).unwrap();
    let (a, b, f, g, c, d, l) = (idx("UA"), idx("UB"), idx("UF"), idx("UG"), idx("UC"), idx("UD"), idx("UL"));
    let h = idx("UH");
    use Entry::*;
    let mut ps: Vec<Vec<Vec<Op>>> = vec![
        // two threads, one export each, same file
        vec![vec![(a, Export)], vec![(b, Export)]],
        vec![vec![(a, Export)], vec![(a, Export)]],
        vec![vec![(f, Export)], vec![(g, Export)]],
        // two threads, two exports each, all four into the same file
        vec![vec![(a, Export), (f, Export)], vec![(b, Export), (g, Export)]],
        vec![vec![(g, Export), (a, Export)], vec![(a, Export), (b, Export)]],
        // export_all with overlapping closures (UA/UB/UL are shared dependencies)
        vec![vec![(c, ExportAll)], vec![(b, ExportAll)]],
        vec![vec![(f, ExportAll)], vec![(g, ExportAll)]],
        vec![vec![(d, ExportAll)], vec![(f, ExportAll)]],
        vec![vec![(c, ExportAll), (g, ExportAll)], vec![(f, ExportAll)]],
        // shared file whose members import different names from one module
        vec![vec![(b, ExportAll)], vec![(h, ExportAll)]],
        vec![vec![(h, Export), (a, Export)], vec![(b, Export)]],
        // three threads, one export each
        vec![vec![(a, Export)], vec![(b, Export)], vec![(f, Export)]],
        vec![vec![(a, Export)], vec![(g, Export)], vec![(a, Export)]],
        vec![vec![(c, ExportAll)], vec![(b, ExportAll)], vec![(l, Export)]],
    ];
    // systematic part: every unordered pair of one-call threads over the whole universe x both entry
    // points (incl. a thread racing with itself) - no hand-picking of which files or closures collide
    let ops: Vec<Op> = (0..uni.len()).flat_map(|t| [(t, Export), (t, ExportAll)]).collect();
    let pairs_from = ps.len();
    for i in 0..ops.len() {
        for j in i..ops.len() {
            ps.push(vec![vec![ops[i]], vec![ops[j]]]);
        }
    }
    let pairs = pairs_from..ps.len();
    if thorough {
        ps.push(vec![vec![(d, ExportAll)], vec![(d, ExportAll)]]);
        ps.push(vec![vec![(d, ExportAll)], vec![(g, ExportAll)], vec![(f, ExportAll)]]);
        ps.push(vec![vec![(a, Export), (b, Export), (f, Export)], vec![(g, Export), (f, Export), (a, Export)]]);
    }
    (ps, pairs)
}

pub fn run(args: &[String]) {
    let bound: usize = arg_value(args, "--bound").map_or(2, |s| s.parse().unwrap());
    let thorough = args.iter().any(|a| a == "--thorough");
    let max_exec: u64 = arg_value(args, "--max-exec").map_or(200_000, |s| s.parse().unwrap());
    let slice = arg_value(args, "--slice").map_or(Slice { i: 0, n: 1 }, |s| Slice::parse(&s));
    let mut rep = Report::new("sched");
    let uni = corpus::u::types();
    let mut scratch = Scratch::new("sched");
    let wd = scratch.fresh();
    std::env::set_current_dir(&wd).unwrap();
    std::env::remove_var("TS_RS_EXPORT_DIR");
    let singles = match universe_singles(&uni) {
        Ok(s) => s,
        Err(e) => {
            rep.machinery_errors.push(e);
            rep.finish();
        }
    };
    hooks::set_sched_hook(Some(Arc::new(hook)));

    let (all_programs, pairs) = programs(&uni, thorough);
    for (pi, program) in all_programs.iter().enumerate() {
        if !slice.mine(pi) {
            continue;
        }
        let mut model = BTreeSet::new();
        for ops in program {
            for (t, e) in ops {
                match e {
                    Entry::Export => {
                        model.insert(*t);
                    }
                    Entry::ExportAll => model.extend(closure_of(&uni, *t)),
                }
            }
        }
        let expected = expected_tree(&uni, &singles, &model, "bindings/");
        let pdesc = program_desc(&uni, program);
        let mut outcomes: BTreeSet<String> = BTreeSet::new();
        let mut per_bound = vec![0u64; bound + 1];
        let mut capped = false;
        // own every source of nondeterminism, then prove it: the default schedule, run twice from
        // a fresh directory and a reset registry, must give the same result. If it does not, the
        // library keeps state that survives the registry reset - the result of an export then
        // depends on what the process exported before (and exploring further would be unsound).
        {
            let mut settled = false;
            let a = run_one(&uni, program, &[], &mut scratch);
            let b = run_one(&uni, program, &[], &mut scratch);
            match (a, b) {
                (Ok(a), Ok(b)) => {
                    if a.tree != b.tree || a.decisions.len() != b.decisions.len() {
                        rep.evaluations += 2;
                        if a.tree != b.tree {
                            rep.violation(
                                json!({"check": "same-schedule-different-result-on-second-run"}),
                                json!({"program": pdesc, "first_run": a.tree, "second_run": b.tree, "first_run_points": a.decisions.len(), "second_run_points": b.decisions.len()}),
                            );
                            rep.count("programs_not_explored_because_not_reproducible", 1);
                            continue;
                        }
                        // same tree both times, but reached along different paths: if that tree is not the
                        // reference tree, the exports of this program into a fresh directory are already
                        // wrong on the default schedule (state kept from earlier programs of this process)
                        if b.tree != expected {
                            rep.violation(
                                json!({"check": "default-schedule-tree-vs-reference-after-earlier-programs"}),
                                json!({"program": pdesc, "got": b.tree, "expected": expected, "first_run_points": a.decisions.len(), "second_run_points": b.decisions.len()}),
                            );
                            rep.count("programs_not_explored_because_not_reproducible", 1);
                            continue;
                        }
                        // the reference tree both times, along different paths (e.g. something is computed on
                        // first use only): if a third run repeats the second, the state has settled and the
                        // exploration below is deterministic; any later divergence is still a hard error
                        if let Ok(c) = run_one(&uni, program, &[], &mut scratch) {
                            if c.tree == b.tree && c.decisions.len() == b.decisions.len() {
                                rep.count("programs_whose_first_run_took_a_different_path", 1);
                                settled = true;
                            }
                        }
                        if !settled {
                        rep.machinery_errors.push(format!(
                            "program {pdesc}: the same schedule took {} scheduling points, then {} - hidden state",
                            a.decisions.len(), b.decisions.len()
                        ));
                        rep.finish();
                        }
                    }
                }
                (Err(e), _) | (_, Err(e)) => {
                    rep.machinery_errors.push(e);
                    rep.finish();
                }
            }
        }
        // iterative context bounding: depth-first over choice prefixes, cost = preemptions
        let mut stack: Vec<Vec<usize>> = vec![vec![]];
        let mut execs = 0u64;
        while let Some(prefix) = stack.pop() {
            if execs >= max_exec {
                capped = true;
                break;
            }
            let x = match run_one(&uni, program, &prefix, &mut scratch) {
                Ok(x) => x,
                Err(e) => {
                    rep.machinery_errors.push(e);
                    rep.finish();
                }
            };
            execs += 1;
            rep.evaluations += 1;
            rep.transitions += x.decisions.len() as u64;
            let choices: Vec<usize> = x.decisions.iter().map(|d| d.chosen).collect();
            let pre = preemptions(&x.decisions);
            per_bound[pre.min(bound)] += 1;
            if x.deadlock {
                rep.violation(
                    json!({"check": "deadlock"}),
                    json!({"program": pdesc, "schedule": choices, "points": x.decisions.last().map(|d| d.points.clone())}),
                );
                rep.finish();
            }
            // oracle
            let errs: Vec<String> = x
                .results
                .iter()
                .flatten()
                .filter_map(|r| r.as_ref().err().cloned())
                .collect();
            let key = serde_json::to_string(&x.tree).unwrap();
            outcomes.insert(key.clone());
            rep.distinct.insert(format!("{pi}:{key}"));
            if !errs.is_empty() || x.tree != expected {
                // confirm by replaying the full schedule twice
                let mut same = true;
                for _ in 0..2 {
                    match run_one(&uni, program, &choices, &mut scratch) {
                        Ok(y) => {
                            if y.tree != x.tree {
                                same = false;
                            }
                        }
                        Err(e) => {
                            rep.machinery_errors.push(format!("replay failed: {e}"));
                            rep.finish();
                        }
                    }
                }
                if !same {
                    rep.machinery_errors.push(format!(
                        "schedule {choices:?} of program {pdesc} did not reproduce identically"
                    ));
                    rep.finish();
                }
                let trace: Vec<String> = x
                    .decisions
                    .iter()
                    .map(|d| format!("t{}@{}", d.enabled[d.chosen], d.points[d.enabled[d.chosen]]))
                    .collect();
                rep.violation(
                    json!({"check": if errs.is_empty() { "final-tree-vs-reference" } else { "export-fails-under-schedule" }}),
                    json!({"program": pdesc, "replay": {"mode": "sched", "program": program_code(program), "schedule": choices}, "preemptions": pre, "schedule": choices, "trace": trace, "errors": errs, "got": x.tree, "expected": expected}),
                );
            }
            // children
            let mut cost = preemptions(&x.decisions[..prefix.len().min(x.decisions.len())]);
            for i in prefix.len()..x.decisions.len() {
                let d = &x.decisions[i];
                for alt in 1..d.enabled.len() {
                    let c = cost + usize::from(d.current_enabled);
                    if c > bound {
                        continue;
                    }
                    let mut p: Vec<usize> = choices[..i].to_vec();
                    p.push(alt);
                    stack.push(p);
                }
                if d.current_enabled && d.chosen != 0 {
                    cost += 1;
                }
            }
        }
        if pairs.contains(&pi) {
            rep.count("systematic_pair_programs", 1);
            rep.count("systematic_pair_program_schedules", execs);
        } else {
            rep.count(&format!("program_{pi}_schedules"), execs);
        }
        for (b, c) in per_bound.iter().enumerate() {
            rep.count(&format!("schedules_with_{b}_preemptions"), *c);
        }
        rep.count("programs", 1);
        if capped {
            rep.count("programs_capped", 1);
        }
        if outcomes.len() != 1 {
            rep.violation(
                json!({"check": "schedule-dependent-outcome"}),
                json!({"program": pdesc, "distinct_outcomes": outcomes.len()}),
            );
        }
        rep.states += outcomes.len() as u64;
        rep.sample(json!({"program": pdesc, "threads": program.len(), "schedules": execs, "preemption_bound": bound, "distinct_final_trees": outcomes.len(), "files_expected": expected.keys().collect::<Vec<_>>()}));
    }
    hooks::set_sched_hook(None);
    drop(scratch);
    rep.finish();
}
