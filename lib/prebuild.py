#!/usr/bin/env python3
"""Pre-build everything the quick checks need (called by setup.sh), so that a check only pays for
what changed in /repo since."""
import sys
import time
import os

sys.path.insert(0, os.path.dirname(os.path.abspath(__file__)))
import driver  # noqa: E402


def main():
    t0 = time.time()
    steps = [
        ("e3", lambda: driver.build_e3()),
        ("e3 import-esm", lambda: driver.build_e3(("import-esm",))),
        ("e1 serde-compat", lambda: driver.build_e1(("serde-compat",))),
        ("e1 serde-compat+no-serde-warnings", lambda: driver.build_e1(("no-serde-warnings", "serde-compat"))),
        ("e1 no features", lambda: driver.build_e1(())),
    ]
    for corpus in ("main", "lib", "lib3", "generic", "present", "strings", "docs"):
        steps.append((f"e2 {corpus}", lambda c=corpus: driver.e2_build(c, "quick")))
    def accepted():
        import glob
        dump = os.path.join(driver.BUILD, "e1-out", "accepted")
        for f in glob.glob(dump + ".*"):
            os.remove(f)
        driver.run_e1(driver.build_e1(("serde-compat",)), "total", "quick", dump=dump)
        driver.e2_build("accepted", "quick")
    steps.append(("e2 accepted (items the derive accepts, from E1)", accepted))
    steps.append(("e2 renamed (ts-rs known only as `tsx`)", lambda: driver.e2_compile_only("renamed", "quick")))
    for name, f in steps:
        t = time.time()
        try:
            f()
            print(f"prebuilt {name} in {time.time() - t:.0f}s", flush=True)
        except driver.Machinery as e:
            print(f"prebuild of {name} failed: {str(e)[:2000]}", flush=True)
            sys.exit(1)
    print(f"prebuild done in {time.time() - t0:.0f}s")


if __name__ == "__main__":
    main()
