"""One function per property: builds what it needs from /repo's working tree, runs the engines,
returns a driver.Result. Bounds per tier are stated here and repeated in the evidence."""
import os

import driver
from driver import Result, build_e3, run_sliced, build_e1, run_e1

TRUST_COMMON = [
    "hooks (cfg ts_rs_verif) add scheduling points / registry access only; with no callback installed they change nothing",
    "file-system calls are atomic steps; tmpfs (/dev/shm) stands in for the output disk",
]


def c05(tier, seed):
    e3 = build_e3()
    r = Result("model_checking",
               "histories: every permutation of every subset (size<=k) of 17 entries sharing one file (15 types, one of them spelling the file with `..`, and two further instantiations of a generic member whose arguments live in other files), folded through the real merge() and exported through the real T::export() (TS_RS_EXPORT_DIR unset; subsets <= 3 also with an absolute directory) with the file compared to the reference model after every step plus re-export of every member; schedules: every interleaving, up to the preemption bound, of 14 (thorough 17) hand-picked 2-3 thread programs of real export()/export_all() calls and of all 300 unordered pairs of one-call threads over the 12 universe types x {export, export_all} (a call racing with itself included), final tree compared to the reference model. distinct = distinct final file contents / (program, final tree) pairs",
               "explicit-state exploration of export histories + preemption-bounded stateless schedule exploration of the real exporter")
    k_pure, k_fs, bound = (5, 4, 2) if tier == "quick" else (6, 5, 3)
    m = run_sliced(e3, ["merge", "--max-pure", str(k_pure), "--max-fs", str(k_fs)])
    r.absorb(m, "merge.")
    args = ["sched", "--bound", str(bound)] + (["--thorough"] if tier == "thorough" else [])
    s = run_sliced(e3, args, slices=64)
    r.absorb(s, "sched.")
    r.extra["bounds"] = {"pure_subset_size": k_pure, "exporter_subset_size": k_fs, "preemption_bound": bound,
                         "threads": "2-3", "exports_per_thread": "1-3"}
    r.exhaustive = s["counters"].get("programs_capped", 0) == 0
    r.traces_validated = r.evaluations
    r.assumptions = TRUST_COMMON + [
        "reference model (tsmodel::refmodel) composes each member's own export_to_string() output; it knows nothing about merging",
        "a thread at the point before the registry lock is enabled iff the real mutex try_lock succeeds",
        "memory-model effects below the mutex are not explored (the exporter has no lock-free code)",
    ]
    return r


def c06(tier, seed):
    e3 = build_e3()
    r = Result("model_checking",
               "breadth-first search over histories of {export(T), export_all(T), export_all_to(T, spelling)} for 12 universe entries (6 sharing a file, one of them spelling it with `..`; 2 sharing another; two instantiations of one generic; dependencies between them) x 7 settings of TS_RS_EXPORT_DIR (unset, relative, ./-prefixed, absolute, with `..`, trailing slash, through a symbolic link) x 3 initial directory contents; every state is reached by replaying its history on the real code from a fresh directory; states deduplicated on (model set, registry snapshot, directory tree); invariant in every state: tree == reference model of the set exported so far on top of the initial contents",
               "explicit-state BFS over export histories on the implementation")
    depth = 3 if tier == "quick" else 4
    args = ["bfs", "--depth", str(depth)]
    if tier == "thorough":
        args += ["--all-spellings"]
    m = run_sliced(e3, args, slices=21)
    r.absorb(m)
    r.extra["bounds"] = {"depth": depth, "spellings_of_export_dir": 7 if tier == "thorough" else 3,
                         "env_settings": 7, "initial_contents": 3, "universe_types": 9}
    r.traces_validated = r.evaluations
    r.assumptions = TRUST_COMMON + [
        "two states with equal (model set, registry, tree) have equal futures: these are all the state the exporter reads besides cwd/env, which are fixed per configuration",
        "reference model composes single-type outputs of the real code",
    ]
    return r


def c17(tier, seed):
    e3 = build_e3()
    r = Result("fault_enumeration",
               "every history of length<=L over {export, export_all, export_all_to} x 9 universe types x {env unset, relative, absolute}; before every step every applicable obstacle (target path is a directory - one per not-yet-written member of the step's closure; a shared target file already written by an earlier step for another type is replaced by a directory and put back afterwards; each missing ancestor directory is a regular file; 4 non-exportable roots x {export, export_all}; export_to with more `..` than depth via export_all / export_all_to / export); the obstructed call must return Err (no panic), touch nothing but its own legitimate targets, leave no registry entry for an unwritten declaration; then the obstacle is removed, the step retried, the history completed and the final tree compared with the reference model. distinct = distinct (env, history, position, fault)",
               "exhaustive fault-position x fault-kind x history enumeration on the real exporter")
    length = 2 if tier == "quick" else 3
    m = run_sliced(e3, ["faults", "--len", str(length)])
    r.absorb(m)
    r.extra["bounds"] = {"history_length": length}
    r.assumptions = TRUST_COMMON + [
        "obstacles are injected where the obstructed path does not exist yet, or replace a file that is put back byte-identically on removal, so injecting destroys nothing",
    ]
    return r


def _only(merged, prop):
    merged["violations"] = [v for v in merged["violations"] if v["class"].get("prop") == prop]
    return merged


GRAPH_RULE = ("dependency-graph corpus (50 root types: one per edge kind - field, inline, flatten, Option/Vec/array/tuple/map key/map value/Box, generic argument (plain, inlined, flattened, nested), parameter default, field/variant/container `as`, type override, struct tag, newtype/tuple structs, self-reference, cycle, 17 enums covering payload kinds x 4 representations x inline/skip/flatten) "
              "x every assignment of run-time placements {default, d/, s.ts, d/x.ts, ../up/, d/e/, d/x.js.ts, d/../s.ts (a second spelling of s.ts), s.mts (not a .ts file: only the same-file rules apply)} to the 7 type keys (quick 15360, thorough 331776 assignments; assignments that agree on the types reachable from the root are one case - an export never looks at the others) x base-directory spellings/entry points (quick 5: default, ./x/../out, through a symbolic link, absolute TS_RS_EXPORT_DIR, trailing slash; thorough 8) x pre-existing contents (quick 2: unrelated files, stale files at the targets; thorough 3) x import-esm {off,on}; one real export_all/export_all_to per case; distinct = distinct (root, locations of reachable types)")


def _graph(tier, prop):
    r_all = []
    for feats in ((), ("import-esm",)):
        e3 = build_e3(feats)
        args = ["graph"] + (["--thorough"] if tier == "thorough" else [])
        m = run_sliced(e3, args, slices=64 if tier == "thorough" else 16)
        r_all.append((feats, _only(m, prop)))
    return r_all


def c03(tier, seed):
    r = Result("exploration", GRAPH_RULE + "; oracle: every written file parsed by swc; free names of its declarations (minus same-file declarations, bound parameters, Array/Record) == imported names, each once; every specifier resolves (independent resolver) to a file written by the same export that exports the name; no self-import; no unused import",
               "exhaustive enumeration of dependency graphs x placements x base spellings on the real exporter, closure checked with an independent parser and resolver")
    for feats, m in _graph(tier, "C03"):
        r.absorb(m, ("esm." if feats else "cjs."))
    # C03a: names - on every type of the main corpus
    _e2("main", tier, "C03", r)
    r.rule += "; plus, for every type of the main E2 corpus: free names of the swc-parsed decl() == names of WithoutGenerics::dependencies() == names imported by export_to_string()"
    r.assumptions = ["swc_ecma_parser is the TypeScript grammar", "tsmodel::paths is the TypeScript relative-module rule",
                     "`#[ts(type = ..)]` overrides only name built-in types in the corpus (a user-written type string is the user's responsibility)"]
    return r


def c11(tier, seed):
    r = Result("exploration", GRAPH_RULE + "; oracle: snapshot (bytes + inode + mtime) before/after: the set of created or modified paths == { base + loc(t) | t reachable by name from the root's declaration (swc free names, transitively) }, loc computed from the placement description (default / directory form / file form), everything else untouched, no stray directories, and T::output_path() == loc",
               "exhaustive enumeration of dependency graphs x export_to forms x base settings on the real exporter with before/after directory snapshots")
    for feats, m in _graph(tier, "C11")[:1]:
        r.absorb(m)
    r.assumptions = ["reachability is computed from the free names of the real decl() strings (independent of visit_dependencies)",
                     "tmpfs mtime granularity is nanoseconds; inode+mtime+bytes identify an untouched file"]
    return r


def c08(tier, seed):
    r = Result("exploration",
               "every ordered pair (importing file, imported file) of relative paths built from <= D directory components over {a, A, a.b, x.ts, ts, .hid, ., ..} followed by a file name from {A.ts, b.c.ts, x.ts.ts, ts.ts, .h.ts, Ats, a.d.ts} x base in {./bindings, /abs/dir, ./x/../y, /b} (thorough: + rel/dir, bindings/, /; D = 3, thorough additionally D = 4 over the directory sub-alphabet {a, A, x.ts, ., ..}) x cwd depth {1,3} x import-esm {off,on}, through the real import_path(); oracle: independent lexical resolver (specifier syntax + resolution == dependency file); plus the specifiers of every real import statement written by the graph corpus. distinct = distinct relative path shapes",
               "exhaustive enumeration of path pairs through the real import_path against an independent resolver")
    depth = 3 if tier == "quick" else 4
    for feats in ((), ("import-esm",)):
        e3 = build_e3(feats)
        pre = "esm." if feats else "cjs."
        # full directory alphabet to 3 components; thorough adds all 7 bases and a 4-component pass over
        # the sub-alphabet {a, x.ts, ., ..} (the full alphabet at 4 components is ~1.1e10 pairs per feature)
        m = run_sliced(e3, ["paths", "--depth", "3"] + (["--fewer-bases"] if tier == "quick" else []), slices=64)
        m["distinct"] = {f"{feats}:{x}" for x in m["distinct"]}
        r.absorb(m, pre)
        if tier == "thorough":
            m = run_sliced(e3, ["paths", "--depth", "4", "--small-dirs"], slices=64)
            m["distinct"] = {f"{feats}:{x}" for x in m["distinct"]}
            r.absorb(m, pre + "depth4-small.")
    for feats, m in _graph("quick", "C08"):
        m["distinct"] = set()
        r.absorb(m, ("graph-esm." if feats else "graph-cjs."))
    r.extra["bounds"] = {"directory_components_full_alphabet": 3,
                         "directory_components_sub_alphabet": depth if tier == "thorough" else 0}
    r.assumptions = ["tsmodel::paths is the TypeScript relative-module rule (./x -> x.ts; x.js -> x.ts under ESM)",
                     "the Windows separator branch cannot execute on this target",
                     "an imported file whose name does not end in .ts has no correct specifier and is excluded from the resolution clause (counted)"]
    return r


def c13(tier, seed):
    e3 = build_e3()
    r = Result("model_checking",
               "owned nondeterminism, explored exhaustively on the implementation: (a) order of the statements in every generated visit_dependencies body (hook H2): all permutations for bodies <= 5 statements, rotations+reversals above, for every corpus type (50 graph roots x 3 placement configurations, 9 universe types, 13 shared-file types), each run twice; (b) every order of every k-subset of universe roots (k=3 quick, 4 thorough) x every assignment of the entry points export() / export_all() to the roots (x forward/reversed visits when all use export_all); (c) every interleaving of 2-3 exporting threads up to the preemption bound (C05's scheduler and programs: 14/17 hand-picked plus all 300 pairs of one-call threads). Oracle: identical trees and identical name/decl/export_to_string/dependency sets, equal to the reference model. distinct = distinct subjects",
               "exhaustive enumeration of visit orders, root orders and preemption-bounded thread schedules on the real exporter")
    args = ["determ"] + (["--thorough"] if tier == "thorough" else [])
    m = run_sliced(e3, args, slices=32)
    r.absorb(m, "determ.")
    bound = 2 if tier == "quick" else 3
    s = run_sliced(e3, ["sched", "--bound", str(bound)] + (["--thorough"] if tier == "thorough" else []), slices=64)
    r.absorb(s, "sched.")
    if tier == "thorough":
        r.extra["fresh_compilation_cross_check"] = fresh_compile_crosscheck(r)
    r.traces_validated = r.evaluations
    r.assumptions = TRUST_COMMON + [
        "hash seeds of independent compiler processes and libtest's real thread pool cannot be owned; the thorough tier samples them as a labelled cross-check (rebuild twice, compare dumps) that decides nothing",
        "under the hook build the generated visit order is harness-chosen (H2); the guard-off build keeps the macro's HashSet order",
    ]
    return r


def fresh_compile_crosscheck(r):
    """Sampling, labelled: force fresh macro processes (new hash seeds) by touching the macro crate,
    rebuild, dump every string-returning function and a full export tree, compare."""
    import os, subprocess
    dumps = []
    for i in range(3):
        os.utime(os.path.join(driver.REPO, "macros", "src", "lib.rs"))
        e3 = build_e3()
        p = subprocess.run([e3, "dump"], stdout=subprocess.PIPE, stderr=subprocess.PIPE, text=True, cwd="/")
        if p.returncode != 0:
            raise driver.Machinery("dump failed: " + p.stderr[-2000:])
        dumps.append(p.stdout)
    same = all(d == dumps[0] for d in dumps)
    if not same:
        r.violations.append({"class": {"check": "fresh-compilation-changes-output"}, "count": 1,
                             "examples": [{"dump_lengths": [len(d) for d in dumps]}]})
    return {"kind": "sampling (labelled): 3 fresh macro processes", "identical": same, "dump_bytes": len(dumps[0])}


def c09(tier, seed):
    exe = build_e1(("serde-compat",))
    _, ver = driver.serde_case_rs()
    r = Result("exploration",
               "every string over {a,b,B,C,1,_,é,É,ß} of length <= L (quick 6, thorough 7) that syn accepts as an identifier, plus r#<keyword> for every keyword and a few conventional names, x 8 rename rules x {field, variant}: the real Inflection conversion applied to exactly what format_field/format_variant feed it, compared with serde_derive's own RenameRule::apply_to_field/apply_to_variant (its case.rs of the locked version, include!d unmodified); pairs on which serde_derive itself panics are counted as serde-undefined; plus end-to-end derives checking that the name lands in the expansion: 64 rule pairs for precedence, and 4 identifiers x 8 rules x 6 field attributes that take their own naming branch (none, type override, as, inline, optional, optional=nullable) x 7 places the rule can come from (struct rename_all, variant rename_all, rename_all_fields of a plain / tagged enum, an untagged variant of a plain / tagged enum, a variant next to a skipped one). distinct = distinct identifiers",
               "exhaustive enumeration of identifiers x rules against serde_derive's own conversion code, in process")
    m = run_e1(exe, "inflect", tier)
    r.absorb(m)
    r.extra["serde_derive_version"] = ver
    r.extra["bounds"] = {"identifier_length": 6 if tier == "quick" else 7, "alphabet": "a b B C 1 _ é É ß"}
    r.assumptions = ["serde_derive/src/internals/case.rs of the version in /repo/Cargo.lock is what serde puts on the wire (it is the code serde_derive runs)",
                     "syn::parse_str::<Ident> decides what is an identifier"]
    return r


def c10(tier, seed):
    r = Result("exploration",
               "11 item templates (struct, enum, tagged enum, enum with tag/content/rename_all, adjacent enum, variant, newtype variant, field, variant field, tuple field, newtype payload) x every supported serde key at that position x: (1) #[serde(k)] vs #[ts(k)]; (2) #[ts(k=v1)] + #[serde(k=v2)] in both orders vs #[ts(k=v1)]; (2b) every ordered pair of supported keys of a position in one list vs split over two lists, in the serde spelling, the ts spelling and mixed; (3) 20 unsupported serde entries (bare, valued, nested forms of supported keys) placed before/after/between supported entries, in one list and split over two lists, and pairs of them, vs the list with the unsupported entries deleted; (4) with serde-compat off: any serde list vs none; under the feature sets {serde-compat, serde-compat+no-serde-warnings, none}. Oracle: identical expansion (token string) of the real derive - which implies identical bindings; for `bound`, which only shapes the where clause, the impl bodies are compared. distinct = distinct left-hand items",
               "exhaustive enumeration of attribute placements, differential comparison of real derive expansions in process")
    for feats in (("serde-compat",), ("no-serde-warnings", "serde-compat"), ()):
        exe = build_e1(feats)
        m = run_e1(exe, "equiv", tier)
        m["distinct"] = {f"{feats}:{x}" for x in m["distinct"]}
        r.absorb(m, ("+".join(feats) or "no-features") + ".")
    r.assumptions = ["identical token strings of the generated impl imply identical bindings (the converse is not needed: a difference is reported)",
                     "'does not break compilation' is checked here as 'the derive returns Ok whenever the entry-free item does'; rustc's verdict on accepted expansions is C16's business"]
    return r


def c16_e1(tier, r):
    import glob, os
    dump = os.path.join(driver.BUILD, "e1-out", "accepted")
    for f in glob.glob(dump + ".*"):
        os.remove(f)
    for feats in (("serde-compat",), ()):
        exe = build_e1(feats)
        # the serde-compat run also writes the accepted ts-spelled items out for rustc
        m = run_e1(exe, "total", tier, dump=dump if feats else None)
        m["distinct"] = {f"{feats}:{x}" for x in m["distinct"]}
        r.absorb(m, ("+".join(feats) or "no-features") + ".")


def c16(tier, seed):
    r = Result("exploration",
               "items: 7 struct shapes and enums whose first variant has one of 7 shapes (alone, +1, +2 other variants; the empty enum) x generics {none, <T>, <T: Clone>, <'a,T>, <const N>, <T = i32>, <T,U> where} x identifiers {Item, __, _1, é, Ünï, r#type, r#fn} x every subset of size <= k (quick 2, thorough 3) of attribute options at container x first variant x first field (34 container, 14 variant, 19 field options: every key valid at that position, keys that do not exist there, invalid and missing values), spelled #[ts] and #[serde], under {serde-compat, no features}; 30 hand-picked edge items. Oracle: never a panic; outcome class (expands / compile_error) equals an independent table of the documented incompatibilities and shape restrictions for all-valid-value subsets. distinct = distinct (shape, options, spelling)",
               "exhaustive small-scope enumeration of derive inputs executed in process, outcome compared with an independent validity table")
    c16_e1(tier, r)
    # rustc's verdict on accepted expansions: every case of the main corpus (valid by construction) must compile
    name, crates, bins, cases, excluded = driver.e2_build("main", tier)
    r.evaluations += len(cases)
    r.counters["main_corpus_cases_compiled_by_rustc"] = len(cases) - len(excluded)
    for corpus in ("generic", "present", "accepted", "docs", "strings"):
        _, _, _, cases2, excluded2 = driver.e2_build(corpus, "quick" if corpus == "accepted" else tier)
        r.evaluations += len(cases2)
        r.counters[corpus + "_corpus_cases_compiled_by_rustc"] = len(cases2) - len(excluded2)
        excluded = {**excluded, **{f"{corpus}:{k}": v for k, v in excluded2.items()}}
    for cid, msg in excluded.items():
        r.violations.append({"class": {"check": "accepted-expansion-does-not-compile"}, "count": 1,
                             "examples": [{"case": cid, "rustc": msg}]})
    # the same under `#[ts(crate = "tsx")]` in crates that have no `ts_rs` at all
    n, errors = driver.e2_compile_only("renamed", tier)
    r.evaluations += n
    r.counters["renamed_crate_corpus_cases_compiled_by_rustc"] = n - sum(1 for k in errors if not k.startswith("prelude#"))
    if errors:
        r.violations.append({"class": {"check": "expansion-does-not-compile-when-ts-rs-is-renamed"}, "count": len(errors),
                             "examples": [{"case": "renamed:" + cid, "rustc": msg} for cid, msg in sorted(errors.items())[:5]]})
    r.rule += "; plus rustc's verdict: every case of the main, generic, present, docs and strings E2 corpora (types in the supported fragment, valid by construction, incl. lifetimes, const parameters with defaults, bounds; every doc text and every rename/tag string of those corpora) must compile, and so must every ts-spelled item with <= 1 attribute option (thorough: <= 2 valid options) that the in-process run saw the derive ACCEPT (`accepted` corpus, ~4k items; excluded: `bound`, which replaces the generated bounds, `concrete` naming no parameter, `optional` on a non-Option - the designed IsOption diagnostic); and the complete generic and present corpora plus every third case of main once more in crates that know ts-rs only as `tsx`, every derive carrying #[ts(crate = \"tsx\")] (`renamed` corpus)"
    r.assumptions = ["proc_macro2/syn behave in the unit-test build (fallback mode) as inside rustc",
                     "the validity table in e1_macros.rs::expected_outcome transcribes the documented incompatibilities; items with an invalid-value option are only required not to panic"]
    return r


def c15(tier, seed):
    exe = build_e1(("serde-compat",))
    r = Result("exploration",
               "every list of length <= k (quick 2, thorough 3) over 16 doc texts (plain, empty, `*/`, `/*`, `**/*.rs`, `export type Z = `, quotes and backslash, non-ASCII, blank line inside, newline only, 300 characters, block forms with and without leading stars, block with `*/`, `//`, template syntax) as #[doc = ..] attributes: (1) the real parse_docs yields one well-formed JSDoc block: starts with /**, ends with */ + newline, no earlier */, contains every non-empty doc line (modulo escaping of the terminator); (2) at 9 positions (struct, enum, field, second field, variant, variant field, flattened field, tuple field, field of a tagged variant) the real derive with the docs differs from the derive without them only by the DOCS constant and the field's doc prefix, and the block is carried where the property requires it. distinct = distinct doc blocks",
               "exhaustive enumeration of doc-attribute lists x positions through the real parse_docs and derive, in process")
    m = run_e1(exe, "docs", tier)
    r.absorb(m, "inproc.")
    # (ii) compiled: 20 doc texts x 11 positions exported alone and merged (3 orders) with two neighbours
    _e2("docs", tier, "C15", r)
    r.rule += "; (ii) compiled: 20 doc-attribute lists x 11 positions (struct/enum/newtype container, first/last field, variant field (also tagged), variant, flattened field, tuple field, type+field), each exported alone and merged through the real merge() with a neighbour sorting before and one after in 3 orders: swc must parse the file, find exactly the expected declarations (no documentation read as code), the declared type must equal the doc-free twin's, and for types and named fields exactly one block comment containing the text must lead the item"
    r.assumptions = ["a JavaScript block comment ends at the first */ after its opener (lexical fact, also confirmed by swc in the exported-file checks)"]
    return r


MAIN_RULE = ("main corpus (quick ~1.5k cases / 1.8k types, thorough ~2k / 3k): struct shapes x 25 field types x container {-, rename, tag}; named fields x 11 attribute options (rename forms, skip, inline, flatten, optional, optional=nullable, as, default) alone and in all ordered pairs; flatten of structs, generics and enums of every representation with 0-2 siblings; nested inline/flatten; rename_all (8 rules) x tag on a mixed struct; optional_fields; enums in 4 representations: all shapes packed, every single shape, ordered shape pairs, 25 payload types, variant attributes {rename, skip, rename_all, untagged} x shapes, payload-field attributes {skip, inline, rename, flatten, optional} x positions, rename_all / rename_all_fields; generic structs/enums instantiated at 5 arguments; 11 unusual identifiers x 8 rules x {field, variant-field, variant}; nesting of every 9th (thorough 3rd) type inside struct/enum/generic/map wrappers to depth 3")


def _e2(corpus, tier, prop, r, features=("serde-json-impl",)):
    name, crates, bins, cases, excluded = driver.e2_build(corpus, tier, features=features)
    m = driver.run_shards(bins, crates, prop)
    r.absorb(m, corpus + ".")
    r.counters[corpus + ".cases_generated"] = len(cases)
    r.counters[corpus + ".cases_excluded_because_they_do_not_compile"] = len(excluded)
    if excluded:
        print(f"NOTE: {len(excluded)} generated cases of corpus {corpus} do not compile against this tree and are excluded here; C16 reports them")
    return cases, excluded


def c01(tier, seed):
    r = Result("exploration", MAIN_RULE + "; values: full product of tiny per-field domains (ints {0,1,-1}, bool both, Option None/Some, Vec len 0/1/2, maps size 0/1, every variant), capped at 48 per constructor (one-factor-at-a-time above); oracle: serde_json::to_value(v) is a member of the TypeScript type parsed by swc from name()/inline()/decl() in the environment of all declarations (exact objects, bigint = integer, intersections by merging). distinct = distinct case sources",
               "exhaustive small-scope enumeration of type definitions x values, compiled against the real derive, serde and serde_json; membership in the swc-parsed type model")
    _e2("main", tier, "C01", r)
    r.assumptions = ["swc parser + tsmodel denotation (unit-tested) is the meaning of the generated TypeScript", "serde_json is the wire format",
                     "values serde refuses to serialize at run time are counted, not checked", "non-finite floats are outside the value alphabet"]
    return r


def c02(tier, seed):
    r = Result("exploration", MAIN_RULE + "; restricted to types on which serde round-trips its own output; candidates: every witness of the declared type (each union arm, optional-property subsets, arrays 0..2, maps 0..1, strings {\"\",a}, numbers {1,2}; products capped at 256 with one-factor-at-a-time above) plus every one-step mutant (drop/null/rename a property, grow/shrink an array, swap a string for another literal or key of the type) of up to 12 real serialized samples that still inhabits the type; oracle: serde_json::from_value::<T> accepts it and the re-serialized value inhabits the type. distinct = distinct case sources",
               "type-directed exhaustive witness enumeration + near-miss mutants, decided by the real serde Deserialize impls")
    _e2("main", tier, "C02", r)
    r.assumptions = ["witness bounds as stated; char-typed leaves restrict strings to one character as the property allows",
                     "types that fail serde's own round trip are excluded (counted)"]
    return r


def c04(tier, seed):
    r = Result("exploration", "string-content corpus: 26 strings (plain, dash, space, digit first, empty, quote, inner quote, backslash, trailing backslash, apostrophe, backtick, ${x}, */, /*, //, newline, tab, CRLF, NUL, é, CJK, $, _, constructor, __proto__, \\u0041) in each of 12 positions (field rename, variant-field rename, struct tag, enum tag internal/adjacent, content, variant rename unit/struct x external/internal/adjacent) + 6 type-level renames that are valid identifiers: the file must parse AND the value swc reads for the key / literal must equal the Rust string; plus every export_to_string() of the main corpus (" + MAIN_RULE + ") and every file written by the dependency-graph corpus (see C03) under import-esm off/on; oracle: swc parses the text as a module without errors; first line is the notice; only `import type` then only `export type`; declared names == types exported to the file, each once; ends with a newline. distinct = distinct case sources / (root, locations)",
               "exhaustive enumeration of exported files, parsed with an independent TypeScript grammar")
    _e2("main", tier, "C04", r)
    _e2("strings", tier, "C04", r)
    _e2("docs", tier, "C04", r)
    for feats, m in _graph(tier, "C04"):
        r.absorb(m, ("graph-esm." if feats else "graph-cjs."))
    if tier == "thorough":
        # the `format` feature (dprint) rewrites every file before it is written
        e3 = build_e3(("format",))
        m = _only(run_sliced(e3, ["graph"], slices=32), "C04")
        m["distinct"] = {f"format:{x}" for x in m["distinct"]}
        r.absorb(m, "graph-format.")
        r.extra["feature_configurations"] = ["default", "import-esm", "format"]
    else:
        r.extra["feature_configurations"] = ["default", "import-esm"]
    r.assumptions = ["swc_ecma_parser 0.144 is the independent TypeScript grammar",
                     "the no-serde-compat configuration is exercised in process (C10, C16), not through exported files"]
    return r


def c12(tier, seed):
    r = Result("exploration",
               "every built-in impl TS: 12 integer widths, 12 NonZero*, floats, bool, char, String/str/Path(Buf), 6 address types, (); Option, Vec, boxed slices, Box, Rc, Arc, RefCell, Mutex, RwLock, PhantomData, Weak (dangling and live), Range, RangeInclusive, [T; 2] over 4 element types; Cell, Cow, &str, HashSet, BTreeSet; [u8; N] for every N in 0..=65 (values where serde implements Serialize, N <= 32; shape `tuple of exactly N` / `Array<T>` above the limit for all N) plus [St; 64], [St; 65], [Option<i32>; 66]; tuples of arity 1..=10; HashMap/BTreeMap with 8 key types (String, i32, u64, unit enum, char, bool, u8, i128); Result; 16 compositions to depth 3; serde_json Value/Number/Map; chrono (7 types), BigDecimal, Uuid, Url, semver, SmolStr, bson ObjectId/Uuid, Bytes(Mut), OrderedFloat, IndexMap/IndexSet, heapless::Vec, tokio Mutex/RwLock/OnceCell (shape only: no serde impl). Oracle: to_value(v) inhabits name() and inline(); for types with free-form leaves every witness of the reported type deserializes; a derived struct with one field of the type depends on exactly its exportable argument types. distinct = distinct (type, values)",
               "exhaustive enumeration of the built-in TS impls x representative values against serde's own Serialize/Deserialize impls")
    _e2("lib", tier, "C12", r)
    _e2("lib3", tier, "C12", r)
    r.assumptions = ["serde (with the `rc` feature) and serde_json define the wire shape", "format-constrained strings (addresses, dates, uuids, urls) are only checked in the serialize direction",
                     "types without a serde impl (arrays > 32, tokio locks, chrono::Duration) are checked for the shape the property text fixes"]
    return r


def c07(tier, seed):
    r = Result("exploration",
               "37 generic definitions: one type parameter used in 16 ways (bare, Option, Vec, tuple, map value, argument of another generic (also nested), inlined generic field, flattened generic field, #[ts(inline)] / #[ts(flatten)] / #[ts(optional)] / #[ts(as)] directly on a parameter-typed field, several uses, PhantomData), newtype/tuple structs, enums in 4 representations, 4 parameter defaults (+ a default naming another parameter), 2 and 3 parameters, parameter names colliding with built-ins, lifetimes and const parameters interleaved, bounds and where clauses, concrete(..) on every subset of two parameters; x all 9 arguments {i32, String, (), Option<u64>, Vec<St>, St, En, Gp<St>, Gp<Gp<i32>>} (all 81 pairs for two parameters, a covering set for three). Oracle: decl() identical for all arguments; swc-parsed parameter list == non-concretised parameters in order with expected defaults; no unbound name; name() == ident<names of arguments>; the generic declaration instantiated at the arguments is equivalent (witness enumeration both ways) to the instantiation's inline()/decl_concrete(). distinct = distinct definitions",
               "exhaustive enumeration of generic definitions x argument tuples; string identity plus model-based equivalence with distinguishing witnesses")
    _e2("generic", tier, "C07", r)
    r.assumptions = ["const arguments are held fixed (an array length has no TypeScript parameter)", "equivalence is decided on all witnesses up to the tsmodel bounds; a report always carries a distinguishing JSON value"]
    return r


def c14(tier, seed):
    r = Result("exploration",
               "27 field types (primitives, containers of user types, structs, enums of every representation, generic instantiations, types that themselves contain inlined/flattened fields, containers of those) x positions {named field with 0/1/2 siblings, newtype, tuple field, newtype/struct/tuple payload of enum variants under 4 representations}: the presentations by-name / inline / flatten (object-like types) / as-same-type; `as = U` for 7 (field type, U) pairs incl. `_` placeholders and field types without a TS impl, on struct fields, tuple fields, newtype and struct variants; container- and variant-level `as` for 6 U. Oracle: inline ≡ by-name and flatten ≡ {siblings} & F (equivalence by witness enumeration both ways, violations carry a distinguishing JSON value); `as` presentations string-equal to the declaration with the field typed U (and equal dependency sets); decl() == `type X = ` + inline(). distinct = distinct cases",
               "exhaustive enumeration of types x positions x presentations; model-based equivalence with distinguishing witnesses and string identity")
    _e2("present", tier, "C14", r)
    r.assumptions = ["tsmodel's intersection is TypeScript's for exact objects (merge properties, distribute over unions, object & non-object = never)"]
    return r


CHECKS = {
    "C07": c07,
    "C14": c14,
    "C12": c12,
    "C01": c01,
    "C02": c02,
    "C04": c04,
    "C09": c09,
    "C10": c10,
    "C15": c15,
    "C16": c16,
    "C03": c03,
    "C08": c08,
    "C11": c11,
    "C13": c13,
    "C05": c05,
    "C06": c06,
    "C17": c17,
}
