"""One function per property: builds what it needs from /repo's working tree, runs the engines,
returns a driver.Result. Bounds per tier are stated here and repeated in the evidence."""
import driver
from driver import Result, build_e3, run_sliced

TRUST_COMMON = [
    "hooks (cfg ts_rs_verif) add scheduling points / registry access only; with no callback installed they change nothing",
    "file-system calls are atomic steps; tmpfs (/dev/shm) stands in for the output disk",
]


def c05(tier, seed):
    e3 = build_e3()
    r = Result("model_checking",
               "histories: every permutation of every subset (size<=k) of 13 types sharing one file, folded through the real merge() and exported through the real T::export() with the file compared to the reference model after every step plus re-export of every member; schedules: every interleaving of 12 (thorough 15) 2-3 thread programs of real export()/export_all() calls up to the preemption bound, final tree compared to the reference model. distinct = distinct final file contents / (program, final tree) pairs",
               "explicit-state exploration of export histories + preemption-bounded stateless schedule exploration of the real exporter")
    k_pure, k_fs, bound = (4, 3, 2) if tier == "quick" else (5, 4, 3)
    m = run_sliced(e3, ["merge", "--max-pure", str(k_pure), "--max-fs", str(k_fs)])
    r.absorb(m, "merge.")
    args = ["sched", "--bound", str(bound)] + (["--thorough"] if tier == "thorough" else [])
    s = run_sliced(e3, args)
    r.absorb(s, "sched.")
    r.extra["bounds"] = {"pure_subset_size": k_pure, "exporter_subset_size": k_fs, "preemption_bound": bound,
                         "threads": "2-3", "exports_per_thread": "1-3"}
    r.exhaustive = s["counters"].get("programs_capped", 0) == 0
    r.traces_validated = r.evaluations
    r.assumptions = TRUST_COMMON + [
        "reference model (tsmodel::refmodel) composes each member's own export_to_string() output; it knows nothing about merging",
        "a thread at the point before the registry lock is enabled iff the real mutex try_lock succeeds",
        "memory-model effects below the mutex are not explored (the exporter has no lock-free code)",
    ]
    return r


def c06(tier, seed):
    e3 = build_e3()
    r = Result("model_checking",
               "breadth-first search over histories of {export(T), export_all(T), export_all_to(T, spelling)} for 9 universe types (4 sharing a file, dependencies between them) x 6 settings of TS_RS_EXPORT_DIR x 3 initial directory contents; every state is reached by replaying its history on the real code from a fresh directory; states deduplicated on (model set, registry snapshot, directory tree); invariant in every state: tree == reference model of the set exported so far on top of the initial contents",
               "explicit-state BFS over export histories on the implementation")
    depth = 2 if tier == "quick" else 3
    args = ["bfs", "--depth", str(depth)]
    if tier == "thorough":
        args += ["--all-spellings"]
    m = run_sliced(e3, args, slices=18)
    r.absorb(m)
    r.extra["bounds"] = {"depth": depth, "spellings_of_export_dir": 7 if tier == "thorough" else 3,
                         "env_settings": 6, "initial_contents": 3, "universe_types": 9}
    r.traces_validated = r.evaluations
    r.assumptions = TRUST_COMMON + [
        "two states with equal (model set, registry, tree) have equal futures: these are all the state the exporter reads besides cwd/env, which are fixed per configuration",
        "reference model composes single-type outputs of the real code",
    ]
    return r


def c17(tier, seed):
    e3 = build_e3()
    r = Result("fault_enumeration",
               "every history of length<=L over {export, export_all, export_all_to} x 9 universe types x {env unset, relative, absolute}; before every step every applicable obstacle (target path is a directory - one per not-yet-written member of the step's closure; each missing ancestor directory is a regular file; 4 non-exportable roots x {export, export_all}; export_to with more `..` than depth via export_all / export_all_to / export); the obstructed call must return Err (no panic), touch nothing but its own legitimate targets, leave no registry entry for an unwritten declaration; then the obstacle is removed, the step retried, the history completed and the final tree compared with the reference model. distinct = distinct (env, history, position, fault)",
               "exhaustive fault-position x fault-kind x history enumeration on the real exporter")
    length = 2 if tier == "quick" else 3
    m = run_sliced(e3, ["faults", "--len", str(length)])
    r.absorb(m)
    r.extra["bounds"] = {"history_length": length}
    r.assumptions = TRUST_COMMON + [
        "obstacles are injected only where the obstructed path does not exist yet, so injecting destroys nothing",
    ]
    return r


CHECKS = {
    "C05": c05,
    "C06": c06,
    "C17": c17,
}
