#!/usr/bin/env python3
"""Regenerates /verif/MANIFEST.json from the table below (kept in one place so it stays valid)."""
import json
import os

VERIF = os.path.dirname(os.path.dirname(os.path.abspath(__file__)))

CHECKS = {
    "C05": dict(engine="E3 export-explorer (merge, sched)", category="model_checking", design="§6 C05",
                technique="explicit-state exploration of export histories + preemption-bounded stateless schedule exploration (iterative context bounding) of the real exporter under a cooperative scheduler",
                text="Every permutation of every small set of types sharing a file (through the real merge() and through T::export(), checked after every step, with re-export), and every interleaving of 2-3 real threads up to a preemption bound, produce byte-for-byte the reference-model file. Exhaustive within the stated bounds on the implementation itself.",
                note="Trusted: the reference model (composition of each type's own export_to_string output), hooks only add scheduling points, FS calls atomic, tmpfs."),
    "C06": dict(engine="E3 export-explorer (bfs)", category="model_checking", design="§6 C06",
                technique="explicit-state breadth-first search over export-call histories on the implementation, states deduplicated on (model set, registry, directory tree)",
                text="BFS over all histories of export/export_all/export_all_to(spelling) up to a depth, for every export-dir setting and initial directory content; in every reached state the directory equals the reference model of the set exported so far.",
                note="Trusted: state canonicalisation argument (registry + tree + model set are all the exporter reads), reference model, tmpfs."),
    "C17": dict(engine="E3 export-explorer (faults)", category="fault_enumeration", design="§6 C17",
                technique="exhaustive enumeration of fault position x fault kind x export history on the real exporter",
                text="For every short export history, every step and every applicable obstacle: the obstructed call returns Err, touches nothing else, records nothing unwritten; after removal and retry the final tree equals the fault-free reference.",
                note="Trusted: obstacles are non-destructive by construction; reference model; tmpfs."),
}

CHECKS.update({
    "C03": dict(engine="E3 export-explorer (graph)", category="exploration", design="§6 C03",
                technique="exhaustive small-scope enumeration of dependency graphs x file placements x base spellings executed on the real exporter; closure decided with an independent TypeScript parser and path resolver",
                text="For every graph shape (one per dependency-edge kind) under every placement of its types into files and every base spelling, each file written by a real export_all is parsed and must import exactly its free names, once, from files the same export wrote that declare them.",
                note="Trusted: swc parser, tsmodel resolver. Bounded: graphs of <=4 user types, placement alphabet of 6, listed base spellings."),
    "C08": dict(engine="E3 export-explorer (paths, graph)", category="exploration", design="§6 C08",
                technique="exhaustive enumeration of (importer, dependency) path pairs over a component alphabet up to a depth bound through the real import_path, against an independent lexical resolver",
                text="All ordered pairs of paths up to the depth bound x base spellings x cwd depths x ESM on/off: the specifier is relative, forward-slashed, extension-free (.js iff ESM) and resolves to the dependency's file.",
                note="Trusted: tsmodel::paths (TypeScript's relative module rule). The Windows branch is not executable here."),
    "C11": dict(engine="E3 export-explorer (graph)", category="exploration", design="§6 C11",
                technique="exhaustive enumeration of dependency graphs x export_to forms x base settings x pre-existing contents with before/after snapshots of the real export",
                text="For every graph x placement x base x pre-existing content, the set of created/modified paths equals the documented locations of exactly the types reachable by name, nothing else changes, and output_path() reports the written path.",
                note="Trusted: reachability from swc free names of the real decl() strings; snapshot = bytes+inode+mtime."),
    "C13": dict(engine="E3 export-explorer (determ, sched)", category="model_checking", design="§6 C13",
                technique="exhaustive enumeration of visit-order permutations (hook H2), root-order permutations and preemption-bounded thread schedules on the real exporter; fresh-compilation cross-check is sampling and labelled as such",
                text="Every owned source of nondeterminism is enumerated: all statement orders of generated visit_dependencies bodies, all orders of root exports, all thread interleavings up to the bound, each run twice; outputs must be identical and equal to the reference model.",
                note="Un-ownable sources (hash seeds of fresh compiler processes, libtest's scheduler) are only sampled in the thorough tier and decide nothing."),
})

CHECKS.update({
    "C09": dict(engine="E1 macro-inproc (inflect)", category="exploration", design="§6 C09",
                technique="exhaustive enumeration of identifiers over a mixed alphabet up to a length bound x 8 rules x {field, variant}; differential against serde_derive's own case.rs executed in the same process",
                text="Every identifier up to the length bound: the name ts-rs derives under each rename rule equals what serde_derive's own RenameRule code yields (serde-undefined inputs counted apart).",
                note="Trusted: serde_derive's case.rs (locked version) is serde's wire naming; syn decides identifier-hood."),
    "C10": dict(engine="E1 macro-inproc (equiv)", category="exploration", design="§6 C10",
                technique="exhaustive enumeration of attribute placements/orders/list splits; differential comparison of real derive expansions under three feature configurations",
                text="For every supported key at every position: serde and ts spellings expand identically, ts wins over serde in both orders, unsupported serde entries anywhere in a list are inert, and without serde-compat serde lists have no effect.",
                note="Trusted: equal expansions imply equal bindings. Bounded: listed templates, 20 unsupported entries, lists of <=3 entries."),
    "C15": dict(engine="E1 macro-inproc (docs)", category="exploration", design="§6 C15",
                technique="exhaustive enumeration of doc-attribute lists x positions through the real parse_docs/derive; structural containment check of the emitted comment and expansion diff",
                text="For every doc list up to the length bound at every position: one well-formed comment block that cannot end early and contains the text; the expansion differs from the doc-free one only in documentation.",
                note="In-process part only so far; placement in exported/merged files is covered by C05's merge corpus (doc types) and will be extended."),
    "C16": dict(engine="E1 macro-inproc (total)", category="exploration", design="§6 C16",
                technique="exhaustive small-scope enumeration of items x attribute-option subsets executed in process; outcome compared with an independent validity table",
                text="No derive input in the enumerated space panics; documented-incompatible or inapplicable combinations are rejected and valid ones accepted, per an independent table.",
                note="rustc's verdict on accepted expansions is established by the compiled corpora of the E2 checks for the types they contain, not for all accepted items."),
})

CHECKS.update({
    "C01": dict(engine="E2 typegen-compile (main corpus)", category="exploration", design="§6 C01",
                technique="exhaustive small-scope enumeration of type definitions x value products, compiled against the real derive + serde; membership of serde_json output in the swc-parsed type model",
                text="Every type of the generated corpus (all shapes, representations and attribute combinations up to the stated interaction order) x every value of its tiny domains: the JSON serde produces inhabits the declared TypeScript type.",
                note="Trusted: swc parser, tsmodel denotation (exact objects, merging intersections), serde_json. Small-scope: arity <=3, depth <=3, pairwise attribute interactions."),
    "C02": dict(engine="E2 typegen-compile (main corpus)", category="exploration", design="§6 C02",
                technique="type-directed exhaustive witness enumeration plus near-miss mutants of real samples, decided by the real serde Deserialize implementation of each generated type",
                text="For every corpus type that round-trips through serde: every enumerated inhabitant of the declared TypeScript type (and every inhabiting one-step mutant of real samples) deserializes, and re-serializes into the type.",
                note="Witness bounds as stated in the evidence; numbers {1,2}, strings {'',a} (one character for char)."),
    "C04": dict(engine="E2 typegen-compile + E3 graph", category="exploration", design="§6 C04",
                technique="exhaustive enumeration of exported files (main corpus outputs, string-content corpus, graph-corpus files) parsed with an independent TypeScript grammar (swc)",
                text="Every exported text of the corpora parses as a module, starts with the notice, holds only `import type` then `export type`, declares exactly the exported types once, ends with a newline.",
                note="Trusted: swc. Feature configurations: default and import-esm (format/no-serde-compat listed as limits until built)."),
})

CHECKS.update({
    "C12": dict(engine="E2 typegen-compile (lib, lib3 corpora)", category="exploration", design="§6 C12",
                technique="exhaustive enumeration of built-in TS impls (all array lengths 0..=65, tuple arities 1..=10, map key types, wrappers, feature crates) x representative values; membership of serde_json output in the reported type; witnesses through Deserialize; dependency sets",
                text="Every supported library type: serde_json output of representative values inhabits the reported TypeScript type, witnesses of free-form types deserialize, and a field of that type contributes exactly its type arguments as dependencies.",
                note="Trusted: serde/serde_json impls of the library types; types without serde impl are checked for the documented shape only."),
})

CHECKS.update({
    "C07": dict(engine="E2 typegen-compile (generic corpus)", category="exploration", design="§6 C07",
                technique="exhaustive enumeration of generic definitions x argument tuples compiled against the real derive; declaration identity across arguments, swc-parsed parameter lists, and model-based equivalence of instantiated generic vs concrete declaration with distinguishing witnesses",
                text="For every generic definition of the corpus and every argument tuple: the declaration text is argument-independent, generic over exactly the non-concretised parameters with their defaults, closed, names instantiations by argument names, and instantiating it denotes the same type as the concrete declaration.",
                note="Trusted: swc, tsmodel equivalence bounds. Const arguments fixed."),
    "C14": dict(engine="E2 typegen-compile (present corpus)", category="exploration", design="§6 C14",
                technique="exhaustive enumeration of field types x positions x presentations {name, inline, flatten, as}; equivalence of denotations by witness enumeration and string identity of `as` bindings",
                text="For every type and position: inline denotes the same values as by-name, flatten is the merged object, `as = U` yields exactly the binding of the item typed U, and inline() is the body of decl().",
                note="Trusted: tsmodel intersection/merge semantics; bounded witness enumeration (reports always carry a distinguishing value)."),
})

NOT_YET = {
}

def hook_commits():
    """Every commit in /repo whose subject starts with `verif hook` (oldest first)."""
    import subprocess
    out = subprocess.run(["git", "-C", "/repo", "log", "--reverse", "--format=%h %s"], capture_output=True, text=True).stdout
    return [l.split()[0] for l in out.splitlines() if " verif hook " in " " + l.split(" ", 1)[1] + " " or l.split(" ", 1)[1].startswith("verif hook")]


def main():
    props = [json.loads(l) for l in open(os.path.join(VERIF, "properties.jsonl"))]
    checks = []
    for p in props:
        pid = p["id"]
        if pid in CHECKS:
            c = CHECKS[pid]
            checks.append({
                "property_id": pid,
                "quick_cmd": f"./check {pid} --tier quick",
                "thorough_cmd": f"./check {pid} --tier thorough",
                "evidence_file": f"/verif/evidence/{pid}.json",
                "replay_cmd_template": f"./check {pid} --replay {{path}}",
                "engine": c["engine"],
                "level_claimed": {"category": c["category"], "text": c["text"], "design_ref": c["design"]},
                "level_note": c["note"],
                "technique": c["technique"],
            })
    na = [{"property_id": p["id"], "reason": NOT_YET.get(p["id"], "check not built yet in this round (planned in DESIGN.md §6); not claimed until it exists")}
          for p in props if p["id"] not in CHECKS]
    m = {
        "version": 1,
        "setup_cmd": "./setup.sh",
        "hooks": {
            "guard": "cfg(ts_rs_verif)",
            "enable": "RUSTFLAGS=\"--cfg ts_rs_verif\" (set by ./check for every cargo invocation; E1 additionally sets TS_RS_VERIF_MACROS_HARNESS)",
            "baseline_off_cmd": "cd /repo && cargo test --workspace --no-fail-fast --offline",
            "source_commits": hook_commits(),
            "add_only": True,
        },
        "engines": [
            {"name": "E3 export-explorer", "path": "harness/e3", "serves_properties": ["C03", "C05", "C06", "C08", "C11", "C13", "C17"],
             "kind_free_text": "explicit-state BFS over histories, fault enumeration, exhaustive path enumeration, preemption-bounded schedule exploration - all on the real exporter"},
            {"name": "E1 macro-inproc", "path": "harness/e1_macros.rs", "serves_properties": ["C09", "C10", "C15", "C16"],
             "kind_free_text": "exhaustive enumeration of derive inputs executed in-process in the proc-macro crate's test build"},
            {"name": "E2 typegen-compile", "path": "gen", "serves_properties": ["C01", "C02", "C03", "C04", "C07", "C12", "C14", "C15"],
             "kind_free_text": "exhaustive small-scope enumeration of type definitions x values, compiled against /repo, checked against serde and the swc-based type model"},
            {"name": "tsmodel", "path": "harness/tsmodel", "serves_properties": [],
             "kind_free_text": "oracle library: swc TypeScript parser -> type model (membership, witnesses, equivalence), path resolver, file reference model"},
        ],
        "checks": checks,
        "not_applicable": na,
        "notes": "See DESIGN.md. known_findings.json lists genuine defects (open = reported as KNOWN-FINDING, fixed = history). Hooks are add-only with respect to the unguarded code: every guarded line only adds instrumentation; two of the six hook commits (714ab4a, 722f434) remove and re-add the scheduling points of export_and_merge around the `fix:` commit that rewrote that function.",
    }
    with open(os.path.join(VERIF, "MANIFEST.json"), "w") as f:
        json.dump(m, f, indent=1)
        f.write("\n")

if __name__ == "__main__":
    main()
