"""Shared driver machinery: builds, parallel runs, known-findings classification, evidence."""
import hashlib
import json
import os
import shutil
import subprocess
import sys
import time
from concurrent.futures import ThreadPoolExecutor

VERIF = os.path.dirname(os.path.dirname(os.path.abspath(__file__)))
REPO = os.environ.get("TSRS_REPO", "/repo")
BUILD = os.path.join(VERIF, ".build")
HARNESS = os.path.join(VERIF, "harness")
NCPU = int(os.environ.get("VERIF_JOBS", "16"))
GUARD_FLAGS = "--cfg ts_rs_verif"


class Machinery(Exception):
    pass


def env_for_cargo(target, extra=None):
    e = dict(os.environ)
    e["CARGO_NET_OFFLINE"] = "true"
    e["RUSTFLAGS"] = GUARD_FLAGS
    e["CARGO_TARGET_DIR"] = os.path.join(BUILD, target)
    e["CARGO_TERM_COLOR"] = "never"
    e.pop("TS_RS_EXPORT_DIR", None)
    if extra:
        e.update(extra)
    return e


def sh(cmd, cwd=None, env=None, timeout=None, check=True, stdin=None):
    p = subprocess.run(cmd, cwd=cwd, env=env, stdout=subprocess.PIPE, stderr=subprocess.PIPE,
                       text=True, timeout=timeout, input=stdin)
    if check and p.returncode != 0:
        raise Machinery(f"command failed ({p.returncode}): {' '.join(cmd)}\n{p.stdout[-3000:]}\n{p.stderr[-6000:]}")
    return p


def ensure_lock(dirpath):
    """Seed the harness Cargo.lock from the repository's, so nothing is resolved against an index."""
    lock = os.path.join(dirpath, "Cargo.lock")
    if not os.path.exists(lock):
        shutil.copy(os.path.join(REPO, "Cargo.lock"), lock)


def build_e3(features=()):
    """Build the export explorer against /repo's working tree (hooks on). Returns the binary path."""
    ensure_lock(HARNESS)
    tag = "h" if not features else "h-" + "-".join(sorted(features))
    cmd = ["cargo", "build", "--offline", "-p", "e3"]
    if features:
        cmd += ["--features", ",".join(features)]
    p = sh(cmd, cwd=HARNESS, env=env_for_cargo(tag), check=False)
    if p.returncode != 0:
        raise Machinery("building the export explorer (e3) against /repo failed:\n" + p.stderr[-6000:])
    return os.path.join(BUILD, tag, "debug", "e3")


def merge_reports(reports):
    out = {"evaluations": 0, "states": 0, "transitions": 0, "counters": {}, "violations": {},
           "samples": [], "distinct": set(), "machinery_errors": []}
    for r in reports:
        out["evaluations"] += r.get("evaluations", 0)
        out["states"] += r.get("states", 0)
        out["transitions"] += r.get("transitions", 0)
        for k, v in r.get("counters", {}).items():
            out["counters"][k] = out["counters"].get(k, 0) + v
        for v in r.get("violations", []):
            key = json.dumps(v["class"], sort_keys=True)
            e = out["violations"].setdefault(key, {"class": v["class"], "count": 0, "examples": []})
            e["count"] += v["count"]
            for ex in v["examples"]:
                if len(e["examples"]) < 3:
                    e["examples"].append(ex)
        for s in r.get("samples", []):
            if len(out["samples"]) < 8:
                out["samples"].append(s)
        out["distinct"].update(r.get("distinct_hashes", []))
        out["machinery_errors"] += r.get("machinery_errors", [])
    out["violations"] = list(out["violations"].values())
    return out


def run_sliced(binary, args, slices=NCPU, timeout=3600, env=None, per_slice_args=None):
    """Run `binary args --slice i/n` for every slice in parallel and merge the JSON reports."""
    def one(i):
        a = [binary] + args + ["--slice", f"{i}/{slices}"]
        if per_slice_args:
            a += per_slice_args(i)
        e = dict(os.environ)
        e.pop("TS_RS_EXPORT_DIR", None)
        if env:
            e.update(env)
        try:
            p = subprocess.run(a, stdout=subprocess.PIPE, stderr=subprocess.PIPE, text=True,
                               timeout=timeout, env=e, cwd="/")
        except subprocess.TimeoutExpired:
            raise Machinery(f"timeout after {timeout}s: {' '.join(a)}")
        if p.returncode not in (0, 2) or not p.stdout.strip():
            raise Machinery(f"explorer crashed ({p.returncode}): {' '.join(a)}\n{p.stderr[-4000:]}")
        try:
            return json.loads(p.stdout.strip().splitlines()[-1])
        except Exception as ex:
            raise Machinery(f"unreadable explorer output: {ex}: {p.stdout[-2000:]}")
    with ThreadPoolExecutor(max_workers=NCPU) as ex:
        reports = list(ex.map(one, range(slices)))
    m = merge_reports(reports)
    if m["machinery_errors"]:
        raise Machinery("; ".join(m["machinery_errors"][:5]))
    return m


# ---- known findings ------------------------------------------------------------------------------

def load_findings():
    with open(os.path.join(VERIF, "known_findings.json")) as f:
        return json.load(f)["findings"]


def _match_one(val, m):
    if isinstance(m, dict):
        if "contains" in m:
            return val is not None and m["contains"] in val
        if "contains_any" in m:
            return val is not None and any(x in val for x in m["contains_any"])
        if "contains_all" in m:
            return val is not None and all(x in val for x in m["contains_all"])
        if "in" in m:
            return val in m["in"]
        if "subset_of" in m:
            return isinstance(val, list) and all(x in m["subset_of"] for x in val)
        if "prefix" in m:
            return isinstance(val, str) and val.startswith(m["prefix"])
        raise Machinery(f"bad matcher {m}")
    return val == m


def classify(pid, cls, findings):
    for f in findings:
        props = f["property"] if isinstance(f["property"], list) else [f["property"]]
        if pid not in props or f.get("status") != "open":
            continue
        ok = True
        for k, m in f["match"].items():
            if k == "any_of_fields":
                ok = ok and any(_match_one(cls.get(k2), m2) for k2, m2 in m.items())
            else:
                ok = ok and _match_one(cls.get(k), m)
        if ok:
            return f
    return None


# ---- conclusion: evidence, replay files, verdict lines -------------------------------------------

class Result:
    def __init__(self, level, rule, technique=""):
        self.level = level
        self.rule = rule
        self.evaluations = 0
        self.distinct_nontrivial = 0
        self.states = None
        self.transitions = None
        self.traces_validated = None
        self.samples = []
        self.violations = []   # [{class, count, examples}]
        self.counters = {}
        self.assumptions = []
        self.exhaustive = True
        self.extra = {}
        self.technique = technique

    def absorb(self, merged, prefix=""):
        self.evaluations += merged["evaluations"]
        self.violations += merged["violations"]
        for k, v in merged["counters"].items():
            self.counters[prefix + k] = self.counters.get(prefix + k, 0) + v
        for s in merged["samples"]:
            if len(self.samples) < 10:
                self.samples.append(s)
        if merged.get("states"):
            self.states = (self.states or 0) + merged["states"]
        if merged.get("transitions"):
            self.transitions = (self.transitions or 0) + merged["transitions"]
        self.distinct_nontrivial += len(merged["distinct"])


def trim(v, limit=1500):
    """Shorten long strings inside a JSON value so evidence/replay files stay readable."""
    if isinstance(v, str):
        return v if len(v) <= limit else v[:limit] + f"... <{len(v)} chars>"
    if isinstance(v, list):
        return [trim(x, limit) for x in v[:50]]
    if isinstance(v, dict):
        return {k: trim(x, limit) for k, x in v.items()}
    return v


def conclude(pid, tier, seed, res, wall):
    findings = load_findings()
    known = {}
    unknown = []
    for v in res.violations:
        f = classify(pid, v["class"], findings)
        if f is not None:
            k = known.setdefault(f["id"], {"finding": f, "count": 0, "classes": 0, "example": None})
            k["count"] += v["count"]
            k["classes"] += 1
            if k["example"] is None and v["examples"]:
                k["example"] = v["examples"][0]
        else:
            unknown.append(v)
    rdir = os.path.join(VERIF, "replays", pid)
    if os.path.isdir(rdir):
        shutil.rmtree(rdir)
    lines = []
    for fid, k in sorted(known.items()):
        lines.append(f"KNOWN-FINDING: property={pid} {fid} {k['finding']['what']} ({k['count']} cases in {k['classes']} classes)")
    if unknown:
        os.makedirs(rdir, exist_ok=True)
    for n, v in enumerate(unknown):
        path = os.path.join(rdir, f"violation_{n}.json")
        with open(path, "w") as f:
            json.dump({"property": pid, "tier": tier, "class": v["class"], "count": v["count"],
                       "examples": v["examples"]}, f, indent=1)
        lines.append(f"VIOLATION property={pid} replay={path}")
        lines.append(f"  class={json.dumps(v['class'], sort_keys=True)} count={v['count']}")
        if v["examples"]:
            lines.append("  example=" + json.dumps(trim(v["examples"][0], 400))[:1200])
    cov = {
        "evaluations": res.evaluations,
        "distinct_nontrivial": res.distinct_nontrivial,
        "rule": res.rule,
        "samples": trim(res.samples)[:10] or ["<none>"],
        "exhaustive": res.exhaustive,
        "counters": res.counters,
        "known_findings_absorbed": {fid: {"cases": k["count"], "classes": k["classes"]} for fid, k in known.items()},
        "unlisted_violation_classes": len(unknown),
    }
    if res.states is not None:
        cov["states"] = res.states
        cov["transitions"] = res.transitions or 0
        cov["traces_validated_against_impl"] = res.traces_validated if res.traces_validated is not None else res.evaluations
    cov.update(res.extra)
    ev = {
        "property_id": pid,
        "tier": tier,
        "seed": seed,
        "level": res.level,
        "coverage": cov,
        "assumptions": res.assumptions,
        "wall_s": round(wall, 2),
        "violations": sum(v["count"] for v in unknown),
    }
    os.makedirs(os.path.join(VERIF, "evidence"), exist_ok=True)
    with open(os.path.join(VERIF, "evidence", f"{pid}.json"), "w") as f:
        json.dump(ev, f, indent=1, sort_keys=True)
        f.write("\n")
    for l in lines:
        print(l)
    print(f"{pid} {tier}: evaluations={res.evaluations} distinct_nontrivial={res.distinct_nontrivial}"
          + (f" states={res.states} transitions={res.transitions}" if res.states is not None else "")
          + f" known={sum(k['count'] for k in known.values())} unlisted={sum(v['count'] for v in unknown)} wall={wall:.1f}s")
    return 1 if unknown else 0


def replay(pid, path):
    """Print the recorded violation; histories and schedules (E3) are re-executed on the real code."""
    with open(path) as f:
        r = json.load(f)
    print(json.dumps(trim(r, 2000), indent=1))
    ex = (r.get("examples") or [{}])[0]
    if isinstance(ex, dict) and isinstance(ex.get("replay"), dict):
        e3 = build_e3()
        p = subprocess.run([e3, "replay", path], stdout=subprocess.PIPE, stderr=subprocess.PIPE, text=True, cwd="/")
        print("\n--- re-executed on the current /repo tree ---")
        print(p.stdout[-6000:])
    elif isinstance(ex, dict) and ex.get("source"):
        print("\n--- plain test: paste the `source` of the example into a #[test] of ts-rs and print decl() / serde_json::to_value ---")
    print("\nTo re-run the exploration that produced this file: ./check", pid, "--tier", r.get("tier", "quick"))
    return 0


# ---- E1: the derive macro in process ---------------------------------------------------------------

def serde_case_rs():
    """serde_derive's own case.rs (exact version of /repo/Cargo.lock), inner doc comments removed so
    that it can be include!d into a module."""
    import re
    lock = open(os.path.join(REPO, "Cargo.lock")).read()
    m = re.search(r'name = "serde_derive"\nversion = "([^"]+)"', lock)
    if not m:
        raise Machinery("serde_derive not in /repo/Cargo.lock")
    ver = m.group(1)
    home = os.environ.get("CARGO_HOME", os.path.expanduser("~/.cargo"))
    import glob
    cands = glob.glob(os.path.join(home, "registry", "src", "*", f"serde_derive-{ver}", "src", "internals", "case.rs"))
    if not cands:
        raise Machinery(f"serde_derive-{ver} sources not found in the cargo registry")
    text = open(cands[0]).read()
    text = "\n".join(l for l in text.splitlines() if not l.startswith("//!")) + "\n"
    os.makedirs(BUILD, exist_ok=True)
    out = os.path.join(BUILD, f"serde_case_{ver}.rs")
    if not os.path.exists(out) or open(out).read() != text:
        with open(out, "w") as f:
            f.write(text)
    return out, ver


def build_e1(features=("serde-compat",)):
    """Build the proc-macro crate's unit-test binary with the harness included (hook H1)."""
    case_rs, _ = serde_case_rs()
    tag = "e1-" + ("-".join(sorted(features)) if features else "nofeat")
    env = env_for_cargo(tag, {
        "TS_RS_VERIF_MACROS_HARNESS": os.path.join(HARNESS, "e1_macros.rs"),
        "TSRS_SERDE_CASE_RS": case_rs,
    })
    cmd = ["cargo", "test", "--offline", "-p", "ts-rs-macros", "--lib", "--no-run", "--no-default-features",
           "--message-format=json"]
    if features:
        cmd += ["--features", ",".join(features)]
    p = sh(cmd, cwd=REPO, env=env, check=False)
    if p.returncode != 0:
        msgs = []
        for line in p.stdout.splitlines():
            try:
                j = json.loads(line)
            except Exception:
                continue
            if j.get("reason") == "compiler-message" and j["message"].get("level") == "error":
                msgs.append(j["message"].get("rendered", ""))
        raise Machinery("building the in-process macro harness (E1) failed:\n" + "\n".join(msgs)[-6000:] + p.stderr[-2000:])
    exe = None
    for line in p.stdout.splitlines():
        try:
            j = json.loads(line)
        except Exception:
            continue
        if j.get("reason") == "compiler-artifact" and j.get("executable") and j["target"]["name"] == "ts_rs_macros":
            exe = j["executable"]
    if not exe:
        raise Machinery("E1 test binary not found in cargo output")
    return exe


_LIBDIR = None


def rust_libdir():
    """The proc-macro crate's test binary links libstd dynamically."""
    global _LIBDIR
    if _LIBDIR is None:
        p = sh(["rustc", "--print", "sysroot"], cwd=REPO)
        root = p.stdout.strip()
        import glob
        dirs = {os.path.dirname(x) for x in glob.glob(os.path.join(root, "lib", "**", "libstd-*.so"), recursive=True)}
        _LIBDIR = ":".join(sorted(dirs) + [os.path.join(root, "lib")])
    return _LIBDIR


def run_e1(exe, mode, tier, slices=NCPU, timeout=3600, dump=None):
    import tempfile
    tmpdir = os.path.join(BUILD, "e1-out")
    os.makedirs(tmpdir, exist_ok=True)

    def one(i):
        out = os.path.join(tmpdir, f"{mode}.{os.getpid()}.{i}.json")
        e = dict(os.environ)
        e["LD_LIBRARY_PATH"] = rust_libdir() + ":" + e.get("LD_LIBRARY_PATH", "")
        if dump:
            e["TSRS_E1_DUMP"] = dump
        e.update({"TSRS_E1_MODE": mode, "TSRS_E1_SLICE": f"{i}/{slices}", "TSRS_E1_OUT": out, "TSRS_E1_TIER": tier})
        try:
            p = subprocess.run([exe, "verif::verif_main", "--exact", "--nocapture", "--test-threads=1"],
                               stdout=subprocess.PIPE, stderr=subprocess.DEVNULL, text=True, timeout=timeout, env=e, cwd="/")
        except subprocess.TimeoutExpired:
            raise Machinery(f"E1 timeout ({mode} slice {i})")
        if p.returncode != 0 or not os.path.exists(out):
            raise Machinery(f"E1 harness crashed ({mode} slice {i}): {p.stdout[-3000:]}")
        with open(out) as f:
            r = json.load(f)
        os.remove(out)
        return r
    with ThreadPoolExecutor(max_workers=NCPU) as ex:
        reports = list(ex.map(one, range(slices)))
    m = merge_reports(reports)
    if m["machinery_errors"]:
        raise Machinery("; ".join(m["machinery_errors"][:5]))
    return m


# ---- E2: generated programs through rustc ----------------------------------------------------------

E2ROOT = os.path.join(BUILD, "e2")


def gen_corpus(corpus, tier, n_shards=None, features=("serde-json-impl",), exclude=()):
    """(Re)generate the shard crates of a corpus; files whose content did not change keep their mtime."""
    sys.path.insert(0, os.path.join(VERIF, "gen"))
    import importlib
    import e2core
    mod = importlib.import_module("corpus_" + corpus)
    cases = mod.build(tier)
    if n_shards is None:
        n_shards = max(1, min(NCPU, len(cases) // 12))
    name = f"{corpus}{tier[0]}"
    files, crates = e2core.corpus_files(name, cases, n_shards, repo=REPO, verif=VERIF,
                                         features=getattr(mod, "FEATURES", features), exclude=exclude,
                                         extra_deps=getattr(mod, "EXTRA_DEPS", ""),
                                         crate_alias=getattr(mod, "CRATE_ALIAS", None))
    e2core.sync_tree(os.path.join(E2ROOT, name), files)
    # root manifest lists every corpus directory present
    members = []
    for d in sorted(os.listdir(E2ROOT)):
        if os.path.isdir(os.path.join(E2ROOT, d)) and d not in (".cargo",):
            for s in sorted(os.listdir(os.path.join(E2ROOT, d))):
                if os.path.isdir(os.path.join(E2ROOT, d, s)):
                    members.append(f"{d}/{s}")
    for rel, text in (("Cargo.toml", e2core.root_manifest(members)), (".cargo/config.toml", "[net]\noffline = true\n")):
        pth = os.path.join(E2ROOT, rel)
        os.makedirs(os.path.dirname(pth), exist_ok=True)
        if not os.path.exists(pth) or open(pth).read() != text:
            with open(pth, "w") as f:
                f.write(text)
    ensure_lock(E2ROOT)
    return name, crates, cases


def build_shards(crates, unattributed=None):
    """Build shard crates. Returns (binaries, failing: {case_id: first error message}). Errors outside
    the case files are a machinery error unless the caller collects them (list `unattributed`)."""
    cmd = ["cargo", "build", "--offline", "--message-format=json"]
    for c in crates:
        cmd += ["-p", c]
    p = sh(cmd, cwd=E2ROOT, env=env_for_cargo("e2t"), check=False, timeout=3600)
    bins = {}
    failing = {}
    other_errors = []
    for line in p.stdout.splitlines():
        try:
            j = json.loads(line)
        except Exception:
            continue
        if j.get("reason") == "compiler-artifact" and j.get("executable"):
            bins[j["target"]["name"]] = j["executable"]
        if j.get("reason") == "compiler-message" and j["message"].get("level") == "error":
            msg = j["message"]
            files = set()

            def walk(sp):
                if sp.get("file_name", "").find("/cases/c") >= 0:
                    files.add(os.path.basename(sp["file_name"])[:-3])
                if sp.get("expansion"):
                    walk(sp["expansion"]["span"])
            for sp in msg.get("spans", []):
                walk(sp)
            for ch in msg.get("children", []):
                for sp in ch.get("spans", []):
                    walk(sp)
            if files:
                for f in files:
                    failing.setdefault(f, msg.get("rendered", msg.get("message", ""))[:1500])
            else:
                other_errors.append(msg.get("rendered", msg.get("message", ""))[:1500])
    if unattributed is not None:
        unattributed.extend(other_errors)
        if p.returncode != 0 and not failing and not other_errors:
            raise Machinery("building generated shards failed without a compiler error:\n" + p.stderr[-3000:])
        return bins, failing
    if p.returncode != 0 and not failing:
        raise Machinery("building generated shards failed without an error attributable to a case:\n"
                        + "\n".join(other_errors)[-4000:] + p.stderr[-3000:])
    return bins, failing


def run_shards(bins, crates, prop, slices_per_shard=1, timeout=3600):
    def one(job):
        c, i = job
        a = [bins[c], "--prop", prop, "--slice", f"{i}/{slices_per_shard}"]
        try:
            p = subprocess.run(a, stdout=subprocess.PIPE, stderr=subprocess.PIPE, text=True, timeout=timeout, cwd="/")
        except subprocess.TimeoutExpired:
            raise Machinery(f"timeout: {' '.join(a)}")
        if p.returncode != 0 or not p.stdout.strip():
            raise Machinery(f"shard crashed ({p.returncode}): {' '.join(a)}\n{p.stderr[-3000:]}")
        return json.loads(p.stdout.strip().splitlines()[-1])
    jobs = [(c, i) for c in crates for i in range(slices_per_shard)]
    with ThreadPoolExecutor(max_workers=NCPU) as ex:
        reports = list(ex.map(one, jobs))
    m = merge_reports(reports)
    if m["machinery_errors"]:
        raise Machinery("oracle could not decide (unknown construct): " + "; ".join(m["machinery_errors"][:5]))
    return m


def e2_compile_only(corpus, tier):
    """Generate a corpus and hand it to rustc once; every compiler error counts (no exclusion rounds).
    Returns (number of cases, {case id or "prelude#k": first error})."""
    name, crates, cases = gen_corpus(corpus, tier)
    other = []
    bins, failing = build_shards(crates, unattributed=other)
    errors = dict(failing)
    for k, msg in enumerate(sorted(set(other))[:20]):
        errors[f"prelude#{k}"] = msg
    return len(cases), errors


def e2_build(corpus, tier, features=("serde-json-impl",), max_rounds=3):
    """Generate + build a corpus, excluding cases that do not compile (returned separately)."""
    exclude = {}
    for _ in range(max_rounds):
        name, crates, cases = gen_corpus(corpus, tier, features=features, exclude=set(exclude))
        bins, failing = build_shards(crates)
        if not failing:
            return name, crates, bins, cases, exclude
        exclude.update(failing)
    raise Machinery(f"shards of corpus {corpus} still fail to build after excluding {len(exclude)} cases: "
                    + "; ".join(f"{k}: {v[:200]}" for k, v in list(exclude.items())[:3]))
