"""C16, crate rename: the expansion may name ts-rs only through the path given by `#[ts(crate = "..")]`.

The shard crates of this corpus depend on ts-rs under the name `tsx` and have no crate called `ts_rs` at
all; every derive carries `#[ts(crate = "tsx")]`. The cases are the complete `generic` and `present`
corpora plus every third case of `main` (each family of `main` is a product over positions, so a stride
of 3 keeps every family, representation and attribute kind); only rustc's verdict is used."""
import corpus_generic
import corpus_main
import corpus_present

CRATE_ALIAS = "tsx"


def build(tier):
    main = corpus_main.build(tier)
    return corpus_generic.build(tier) + corpus_present.build(tier) + main[::3]
