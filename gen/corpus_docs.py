"""C15 (ii): doc comments in exported files, alone and merged into a shared file."""
from e2core import Case, Field, TypeDef, Variant
from corpus_strings import rs

TS_ONLY = "#[derive(TS)]"
DOCS = [("plain", [" x"]), ("two-lines", [" first", " second"]), ("empty-line-between", [" a", "", " b"]), ("only-empty", [""]),
        ("comment-terminator", [" has */ inside"]), ("comment-opener", [" has /* inside"]), ("glob", [" see **/*.rs"]),
        ("export-type-words", [" export type Z = number;"]), ("quotes-backslash", [" \"q\" 'r' \\ "]), ("non-ascii", [" é日本"]),
        ("block-with-blank-line", ["a\n\nb"]), ("block-newline-only", ["\n"]), ("long", [" " + "0123456789" * 30]),
        ("block-with-stars", ["\n * first\n * second\n "]), ("block-no-stars", ["\n first\n second\n"]), ("block-terminator", ["\n ends */ early\n"]),
        ("line-comment", [" // not a comment"]), ("template", [" `${x}`"]), ("import-words", [" import type { A } from \"./A\";"]),
        ("blank-then-export", [" a", "", " export type Q = 1;"]),
        ("leading-slash", ["/etc/passwd is read"]), ("leading-slash-multiline", ["/ x\ny"]), ("second-line-leading-slash", [" a", "/b"]),
        ("object-intersection-words", [" has { a } & { b } inside"]), ("trailing-star", [" ends with *"]), ("only-slash", ["/"]),
        ("format-placeholders", [" uses {0} and {1}, {{x}} and }}"]), ("lone-braces", [" a } and a { and {}"]), ("unpaired-quote", [" say \"hi"]), ("percent-and-braces", [" 100% {} {:?}"])]


def doc_attrs(texts):
    return [f"#[doc = {rs(t)}]" for t in texts]


def build(tier):
    out = []
    for kind, texts in DOCS:
        d = doc_attrs(texts)
        tx = ", ".join(rs(t) for t in texts)

        def case(pos, position_arg, mid, plain):
            body = [f'ctx.c15_docs::<Mid, Plain>("Mid", {rs(position_arg)}, &[{tx}]);', 'if ctx.prop == "C04" { ctx.c04::<Mid>("Mid"); }']
            out.append(Case({"family": "docs-in-files", "position": pos, "doc_kind": kind}, [mid, plain], body))

        def pair(mk):
            mid = mk("Mid", True)
            plain = mk("Plain", False)
            plain.attrs = plain.attrs + ['#[ts(rename = "Mid")]']
            return mid, plain
        case("container-struct", "type", *pair(lambda n, w: TypeDef(n, "struct", "named", [Field("i32", "a"), Field("String", "b")], attrs=(d if w else []), derives=TS_ONLY, vals=False)))
        case("container-enum", "type", *pair(lambda n, w: TypeDef(n, "enum", variants=[Variant("A", "unit"), Variant("B", "tuple", [Field("i32")])], attrs=(d if w else []), derives=TS_ONLY, vals=False)))
        case("container-newtype", "type", *pair(lambda n, w: TypeDef(n, "struct", "tuple", [Field("i32")], attrs=(d if w else []), derives=TS_ONLY, vals=False)))
        case("field", "field:a", *pair(lambda n, w: TypeDef(n, "struct", "named", [Field("i32", "a", d if w else []), Field("String", "b")], derives=TS_ONLY, vals=False)))
        case("last-field", "field:b", *pair(lambda n, w: TypeDef(n, "struct", "named", [Field("i32", "a"), Field("String", "b", d if w else [])], derives=TS_ONLY, vals=False)))
        case("variant-field", "field:x", *pair(lambda n, w: TypeDef(n, "enum", variants=[Variant("A", "named", [Field("i32", "x", d if w else [])]), Variant("B", "unit")], derives=TS_ONLY, vals=False)))
        case("tagged-variant-field", "field:x", *pair(lambda n, w: TypeDef(n, "enum", variants=[Variant("A", "named", [Field("i32", "x", d if w else [])]), Variant("B", "unit")], attrs=['#[ts(tag = "t")]'], derives=TS_ONLY, vals=False)))
        case("variant", "dropped", *pair(lambda n, w: TypeDef(n, "enum", variants=[Variant("A", "unit", attrs=(d if w else [])), Variant("B", "tuple", [Field("i32")])], derives=TS_ONLY, vals=False)))
        case("flattened-field", "dropped", *pair(lambda n, w: TypeDef(n, "struct", "named", [Field("St", "a", (d if w else []) + ["#[ts(flatten)]"]), Field("String", "b")], derives=TS_ONLY, vals=False)))
        case("field-next-to-flattened", "field:a", *pair(lambda n, w: TypeDef(n, "struct", "named", [Field("i32", "a", d if w else []), Field("St", "s", ["#[ts(flatten)]"])], derives=TS_ONLY, vals=False)))
        case("field-between-flattened", "field:m", *pair(lambda n, w: TypeDef(n, "struct", "named", [Field("St", "s", ["#[ts(flatten)]"]), Field("i32", "m", d if w else []), Field("Gp<i32>", "g", ["#[ts(flatten)]"])], derives=TS_ONLY, vals=False)))
        case("variant-field-next-to-flattened", "field:x", *pair(lambda n, w: TypeDef(n, "enum", variants=[Variant("A", "named", [Field("i32", "x", d if w else []), Field("St", "s", ["#[ts(flatten)]"])]), Variant("B", "unit")], attrs=['#[ts(tag = "t")]'], derives=TS_ONLY, vals=False)))
        case("tuple-field", "dropped", *pair(lambda n, w: TypeDef(n, "struct", "tuple", [Field("i32", None, d if w else []), Field("String")], derives=TS_ONLY, vals=False)))
        case("type-override-field", "field:a", *pair(lambda n, w: TypeDef(n, "struct", "named", [Field("i32", "a", (d if w else []) + ['#[ts(type = "number /* seconds */")]']), Field("String", "b")], derives=TS_ONLY, vals=False)))
        case("as-field", "field:a", *pair(lambda n, w: TypeDef(n, "struct", "named", [Field("i32", "a", (d if w else []) + ['#[ts(as = "String")]']), Field("String", "b")], derives=TS_ONLY, vals=False)))
        case("optional-field", "field:a", *pair(lambda n, w: TypeDef(n, "struct", "named", [Field("Option<i32>", "a", (d if w else []) + ["#[ts(optional)]"]), Field("String", "b")], derives=TS_ONLY, vals=False)))
        case("inline-field", "field:a", *pair(lambda n, w: TypeDef(n, "struct", "named", [Field("St", "a", (d if w else []) + ["#[ts(inline)]"]), Field("String", "b")], derives=TS_ONLY, vals=False)))
        case("renamed-field", "field:re-named", *pair(lambda n, w: TypeDef(n, "struct", "named", [Field("i32", "a", (d if w else []) + ['#[ts(rename = "re-named")]']), Field("String", "b")], derives=TS_ONLY, vals=False)))
        case("type-and-field", "type", *pair(lambda n, w: TypeDef(n, "struct", "named", [Field("i32", "a", d if w else []), Field("String", "b")], attrs=(d if w else []), derives=TS_ONLY, vals=False)))
    # documentation inside types that get flattened several levels up (text heuristics on the way)
    for kind, text in (("unbalanced-open-paren", " see (appendix"), ("unbalanced-close-paren", " done) now"), ("brace-amp-brace", " has { a } & { b } inside"),
                       ("pipe-and-amp", " a | b & c"), ("quote", " say \"hi\""), ("plain", " x"),
                       ("unpaired-quote", " say \"hi"), ("unpaired-quote-then-parens", " a \" then ) & ( again"), ("comment-opener", " has /* inside ("),
                       ("backslash-quote", " ends \\\" ("), ("format-placeholders", " {0} {{ }}")):
        d1 = doc_attrs([text])

        def mk(n, w):
            e1 = TypeDef("E1" + n, "enum", variants=[Variant("A", "named", [Field("i32", "x", d1 if w else [])]), Variant("B", "unit")], derives=TS_ONLY, vals=False)
            e2 = TypeDef("E2" + n, "enum", variants=[Variant("C", "tuple", [Field("i32")]), Variant("D", "unit")], derives=TS_ONLY, vals=False)
            inner = TypeDef("Inner" + n, "struct", "named", [Field("E1" + n, "e1", ["#[ts(flatten)]"]), Field("E2" + n, "e2", ["#[ts(flatten)]"])], derives=TS_ONLY, vals=False)
            return [e1, e2, inner]
        wt, pt = mk("W", True), mk("P", False)
        mid = TypeDef("Mid", "struct", "named", [Field("InnerW", "i", ["#[ts(flatten)]"])], derives=TS_ONLY, vals=False)
        plain = TypeDef("Plain", "struct", "named", [Field("InnerP", "i", ["#[ts(flatten)]"])], attrs=['#[ts(rename = "Mid")]'], derives=TS_ONLY, vals=False)
        out.append(Case({"family": "docs-in-files", "position": "field-of-twice-flattened-enum", "doc_kind": kind}, wt + pt + [mid, plain],
                        ['ctx.c15_docs::<Mid, Plain>("Mid", "dropped", &[' + rs(text) + ']);', 'if ctx.prop == "C04" { ctx.c04::<Mid>("Mid"); }']))
        mid2 = TypeDef("Mid", "struct", "named", [Field("bool", "own"), Field("InnerW", "i", ["#[ts(flatten)]"])], derives=TS_ONLY, vals=False)
        plain2 = TypeDef("Plain", "struct", "named", [Field("bool", "own"), Field("InnerP", "i", ["#[ts(flatten)]"])], attrs=['#[ts(rename = "Mid")]'], derives=TS_ONLY, vals=False)
        out.append(Case({"family": "docs-in-files", "position": "field-of-flattened-enum-with-sibling", "doc_kind": kind}, wt + pt + [mid2, plain2],
                        ['ctx.c15_docs::<Mid, Plain>("Mid", "dropped", &[' + rs(text) + ']);']))
    return out
