"""C16: derive inputs that the in-process harness (E1 `total`) saw the macro ACCEPT; rustc must
compile each of them. The item sources are read from the dump E1 wrote (one JSON object per line)."""
import glob
import json
import os
from e2core import Case, TypeDef

DUMP = os.environ.get("TSRS_ACCEPTED_DUMP", "/verif/.build/e1-out/accepted")

EXTRA = '''
#[derive(TS)] pub struct Item2 { pub x: i32 }
#[derive(TS)] pub struct Inner { pub y: i32 }
'''


class RawItem(TypeDef):
    """A definition given as source text."""
    def __init__(self, src):
        super().__init__("Item", "struct")
        self.src = src
        self.vals = False

    def render(self):
        return "#[derive(TS)]\n" + self.src

    def render_vals(self):
        return ""


def build(tier):
    seen = set()
    out = []
    for f in sorted(glob.glob(DUMP + ".*")):
        for line in open(f):
            try:
                j = json.loads(line)
            except Exception:
                continue
            src = j["src"].strip()
            if src in seen:
                continue
            seen.add(src)
            out.append((src, j["keys"]))
    out.sort()
    cases = []
    # several items per case file would clash on names: one item per case
    for src, keys in out:
        c = Case({"family": "accepted-by-derive", "keys": keys}, [RawItem(src)], ["ctx.count(\"accepted_items_compiled\", 1);"], extra_items=EXTRA, decl_types=[])
        cases.append(c)
    return cases
