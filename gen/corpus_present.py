"""C14 corpus: the presentations {by name, inline, flatten, as} of one underlying Rust type."""
from e2core import Case, Field, TypeDef, Variant

TS_ONLY = "#[derive(TS)]"

INNER_FL = TypeDef("InnerFl", "struct", "named", [Field("i32", "deep"), Field("St", "st", ["#[ts(flatten)]"])], derives=TS_ONLY, vals=False)
INNER_IN = TypeDef("InnerIn", "struct", "named", [Field("i32", "deep"), Field("St", "st", ["#[ts(inline)]"])], derives=TS_ONLY, vals=False)
INNER_EN = TypeDef("InnerEn", "enum", variants=[Variant("A", "named", [Field("St", "s", ["#[ts(flatten)]"]), Field("i32", "n")]), Variant("B", "unit")],
                   attrs=['#[ts(tag = "k")]'], derives=TS_ONLY, vals=False)

INNER_E2 = TypeDef("InnerE2", "struct", "named", [Field("Ei", "e", ["#[ts(flatten)]"]), Field("Ea", "f", ["#[ts(flatten)]"])], derives=TS_ONLY, vals=False)
INNER_ES = TypeDef("InnerES", "struct", "named", [Field("En", "e", ["#[ts(flatten)]"]), Field("St", "s", ["#[ts(flatten)]"])], derives=TS_ONLY, vals=False)
INNER_E1 = TypeDef("InnerE1", "struct", "named", [Field("Ei", "e", ["#[ts(flatten)]"])], derives=TS_ONLY, vals=False)
OUTER_E2 = TypeDef("OuterE2", "struct", "named", [Field("InnerE2", "i", ["#[ts(flatten)]"])], derives=TS_ONLY, vals=False)

# (type, object-like?, extra type definitions)
MENU = [
    ("Box<En>", True, []), ("std::rc::Rc<Ei>", True, []), ("Box<Gp<St>>", True, []), ("std::sync::Arc<Eu>", True, []),
    ("InnerE2", True, [INNER_E2]), ("InnerES", True, [INNER_ES]), ("InnerE1", True, [INNER_E1]), ("OuterE2", True, [INNER_E2, OUTER_E2]),
    ("Box<InnerE2>", True, [INNER_E2]),
    ("[St; 64]", False, []), ("[i32; 65]", False, []), ("Option<[St; 64]>", False, []), ("Vec<[i32; 64]>", False, []), ("[Option<St>; 3]", False, []),

    ("i32", False, []), ("String", False, []), ("Option<St>", False, []), ("Vec<St>", False, []), ("[St; 2]", False, []),
    ("BTreeMap<String, St>", False, []), ("HashMap<Ue, St>", False, []), ("Box<St>", True, []), ("Option<Vec<Option<St>>>", False, []),
    ("St", True, []), ("En", True, []), ("Ue", False, []), ("Nt", False, []), ("Tu", False, []), ("Un", False, []),
    ("Ei", True, []), ("Ea", True, []), ("Eu", True, []), ("Gp<St>", True, []), ("Gp<Option<En>>", True, []), ("Gp<Gp<i32>>", True, []),
    ("InnerFl", True, [INNER_FL]), ("InnerIn", True, [INNER_IN]), ("InnerEn", True, [INNER_EN]),
    ("Vec<InnerFl>", False, [INNER_FL]), ("Option<InnerIn>", False, [INNER_IN]), ("Gp<InnerFl>", True, [INNER_FL]),
]
# systematic part: a struct made only of flattened members, for every word without repetition of length
# 1..3 over {struct, generic struct, internally tagged enum, adjacently tagged enum} (their keys are
# disjoint) - each such type then goes through every presentation like any other menu entry
def _flat_words():
    import itertools
    alpha = [("St", "s"), ("Gp<i32>", "g"), ("Ei", "e"), ("Ea", "f")]
    out = []
    for n in (1, 2, 3):
        for w in itertools.permutations(alpha, n):
            name = "Fw" + "".join(t[0][:2].replace("<", "") for t in w)
            td = TypeDef(name, "struct", "named", [Field(t, f, ["#[ts(flatten)]"]) for t, f in w], derives=TS_ONLY, vals=False)
            out.append((name, True, [td]))
    return out


MENU += _flat_words()
SIBS = {0: ("", []), 1: ("s0: number,", [Field("i32", "s0")]), 2: ("s0: number, s1: string,", [Field("i32", "s0"), Field("String", "s1")])}


def q(s):
    import json
    return json.dumps(s)


def st(name, fields, attrs=None, shape="named"):
    return TypeDef(name, "struct", shape, fields, attrs=attrs or [], derives=TS_ONLY, vals=False)


def build(tier):
    out = []
    for ty, obj, extra in MENU:
        dts = [t.name for t in extra]
        # ---- named field with 0/1/2 siblings
        for ns, (sib_ts, sib_fields) in SIBS.items():
            pn = st("PN", sib_fields + [Field(ty, "f")])
            pi = st("PI", sib_fields + [Field(ty, "f", ["#[ts(inline)]"])])
            pa = st("PA", sib_fields + [Field(ty, "f", [f'#[ts(as = "{ty}")]'])], attrs=['#[ts(rename = "PN")]'])
            types = extra + [pn, pi, pa]
            body = [
                'ctx.check_equiv("inline-presentation-denotes-a-different-type", &|| <PN as TS>::inline(), &|| <PI as TS>::inline());',
                'ctx.check_same_string("as-same-type-changes-the-declaration", &|| <PN as TS>::decl(), &|| <PA as TS>::decl());',
                'ctx.check_same_string("inline-is-not-the-body-of-the-declaration", &|| <PI as TS>::decl(), &|| format!("type PI = {};", <PI as TS>::inline()));',
            ]
            if obj:
                pf = st("PF", sib_fields + [Field(ty, "f", ["#[ts(flatten)]"])])
                types.append(pf)
                expect = f'format!("{{{{ {sib_ts} }}}} & {{}}", <{ty} as TS>::name())' if ns else f'<{ty} as TS>::name()'
                body.append(f'ctx.check_equiv("flatten-presentation-is-not-the-merged-object", &|| <PF as TS>::inline(), &|| {expect});')
                body.append('ctx.check_same_string("inline-is-not-the-body-of-the-declaration", &|| <PF as TS>::decl(), &|| format!("type PF = {};", <PF as TS>::inline()));')
            out.append(Case({"family": "presentation", "position": f"named-field-{ns}-siblings", "field_type": ty}, types, body, decl_types=dts + ["PN"]))
        # ---- tuple field and newtype
        for pos, mk in (("newtype", lambda a: [Field(ty, None, a)]), ("tuple-field", lambda a: [Field("bool"), Field(ty, None, a)])):
            pn = st("PN", mk([]), shape="tuple")
            pi = st("PI", mk(["#[ts(inline)]"]), shape="tuple")
            pa = st("PA", mk([f'#[ts(as = "{ty}")]']), attrs=['#[ts(rename = "PN")]'], shape="tuple")
            body = [
                'ctx.check_equiv("inline-presentation-denotes-a-different-type", &|| <PN as TS>::inline(), &|| <PI as TS>::inline());',
                'ctx.check_same_string("as-same-type-changes-the-declaration", &|| <PN as TS>::decl(), &|| <PA as TS>::decl());',
            ]
            out.append(Case({"family": "presentation", "position": pos, "field_type": ty}, extra + [pn, pi, pa], body, decl_types=dts + ["PN"]))
        # ---- payloads of enum variants under each representation
        for rp, rattr in (("external", []), ("internal", ['#[ts(tag = "t")]']), ("adjacent", ['#[ts(tag = "t", content = "c")]']), ("untagged", ["#[ts(untagged)]"])):
            def en(name, fattr, rename=None):
                vs = [Variant("N", "tuple", [Field(ty, None, list(fattr))]), Variant("S", "named", [Field("bool", "keep"), Field(ty, "f", list(fattr))]), Variant("U", "unit")]
                if rp != "internal":
                    vs.append(Variant("T", "tuple", [Field("bool"), Field(ty, None, list(fattr))]))
                attrs = list(rattr) + ([f'#[ts(rename = "{rename}")]'] if rename else [])
                return TypeDef(name, "enum", variants=vs, attrs=attrs, derives=TS_ONLY, vals=False)
            if rp == "internal" and not obj:
                continue   # `{tag} & non-object` is uninhabited on both sides: nothing to compare
            body = [
                'ctx.check_equiv("inline-presentation-denotes-a-different-type", &|| <EN as TS>::inline(), &|| <EI as TS>::inline());',
                'ctx.check_same_string("as-same-type-changes-the-declaration", &|| <EN as TS>::decl(), &|| <EA as TS>::decl());',
                'ctx.check_same_string("inline-is-not-the-body-of-the-declaration", &|| <EI as TS>::decl(), &|| format!("type EI = {};", <EI as TS>::inline()));',
            ]
            out.append(Case({"family": "presentation", "position": f"enum-payload-{rp}", "field_type": ty},
                            extra + [en("EN", []), en("EI", ["#[ts(inline)]"]), en("EA", [f'#[ts(as = "{ty}")]'], rename="EN")], body, decl_types=dts + ["EN"]))
    # ---- optional x inline on the same Option field
    for ty in ("St", "En", "Ei", "Gp<St>", "Vec<St>", "Box<St>", "i32"):
        for mode, lbl in (("optional", "optional"), ("optional = nullable", "optional-nullable")):
            pn = st("PN", [Field("bool", "keep"), Field(f"Option<{ty}>", "f", [f"#[ts({mode})]"])])
            pi = st("PI", [Field("bool", "keep"), Field(f"Option<{ty}>", "f", [f"#[ts({mode}, inline)]"])])
            of = "optional_fields" if mode == "optional" else "optional_fields = nullable"
            sn = st("SN", [Field("bool", "keep"), Field(f"Option<{ty}>", "f")], attrs=[f"#[ts({of})]"])
            si = st("SI", [Field("bool", "keep"), Field(f"Option<{ty}>", "f", ["#[ts(inline)]"])], attrs=[f"#[ts({of})]"])
            body = [
                'ctx.check_equiv("inline-presentation-denotes-a-different-type", &|| <PN as TS>::inline(), &|| <PI as TS>::inline());',
                'ctx.check_equiv("inline-presentation-denotes-a-different-type", &|| <SN as TS>::inline(), &|| <SI as TS>::inline());',
                'ctx.check_equiv("field-optional-differs-from-struct-optional_fields", &|| <PN as TS>::inline(), &|| <SN as TS>::inline());',
            ]
            out.append(Case({"family": "presentation-optional", "mode": lbl, "field_type": ty}, [pn, pi, sn, si], body, decl_types=["PN"]))
    # ---- `as = "U"` with U different from the field's type: exactly the binding of the item with type U
    class_no_ts = "pub struct NoTs(pub u8);"
    for f, u in (("i32", "String"), ("NoTs", "St"), ("Vec<NoTs>", "Vec<St>"), ("i32", "Option<_>"), ("St", "Gp<_>"), ("NoTs", "(i32, St)"), ("u8", "BTreeMap<String, Vec<_>>")):
        uu = u.replace("_", f)
        a1 = st("A1", [Field("bool", "keep"), Field(f, "f", [f'#[ts(as = "{u}")]'])])
        a2 = st("A2", [Field("bool", "keep"), Field(uu, "f")], attrs=['#[ts(rename = "A1")]'])
        e1 = TypeDef("E1", "enum", variants=[Variant("V", "tuple", [Field(f, None, [f'#[ts(as = "{u}")]'])]), Variant("W", "named", [Field(f, "x", [f'#[ts(as = "{u}")]'])])], derives=TS_ONLY, vals=False)
        e2 = TypeDef("E2", "enum", variants=[Variant("V", "tuple", [Field(uu)]), Variant("W", "named", [Field(uu, "x")])], attrs=['#[ts(rename = "E1")]'], derives=TS_ONLY, vals=False)
        t1 = st("T1", [Field(f, None, [f'#[ts(as = "{u}")]']), Field("bool")], shape="tuple")
        t2 = st("T2", [Field(uu), Field("bool")], attrs=['#[ts(rename = "T1")]'], shape="tuple")
        body = [
            'ctx.check_same_string("as-U-differs-from-declaring-the-field-with-type-U", &|| <A1 as TS>::decl(), &|| <A2 as TS>::decl());',
            'ctx.check_same_string("as-U-differs-from-declaring-the-field-with-type-U", &|| <E1 as TS>::decl(), &|| <E2 as TS>::decl());',
            'ctx.check_same_string("as-U-differs-from-declaring-the-field-with-type-U", &|| <T1 as TS>::decl(), &|| <T2 as TS>::decl());',
            'ctx.check_same_string("as-U-changes-the-dependencies", &|| format!("{:?}", { let mut d: Vec<String> = <A1 as TS>::dependencies().into_iter().map(|d| d.ts_name).collect(); d.sort(); d }), &|| format!("{:?}", { let mut d: Vec<String> = <A2 as TS>::dependencies().into_iter().map(|d| d.ts_name).collect(); d.sort(); d }));',
        ]
        types = [a1, a2, e1, e2, t1, t2]
        # the same under every enum representation, alone and together with `inline` (tuples cannot be inlined)
        k = 0
        for rp, rattr in (("external", []), ("internal", ['#[ts(tag = "t")]']), ("adjacent", ['#[ts(tag = "t", content = "c")]']), ("untagged", ["#[ts(untagged)]"])):
            for mod in ("", "inline"):
                if (rp == "external" and not mod) or (mod and "(" in u):
                    continue
                k += 1
                am = f'#[ts(as = "{u}", inline)]' if mod else f'#[ts(as = "{u}")]'
                um = ["#[ts(inline)]"] if mod else []
                x1 = TypeDef(f"X{k}", "enum", variants=[Variant("V", "tuple", [Field(f, None, [am])]), Variant("W", "named", [Field("bool", "keep"), Field(f, "x", [am])]), Variant("U", "unit")],
                             attrs=list(rattr), derives=TS_ONLY, vals=False)
                y1 = TypeDef(f"Y{k}", "enum", variants=[Variant("V", "tuple", [Field(uu, None, list(um))]), Variant("W", "named", [Field("bool", "keep"), Field(uu, "x", list(um))]), Variant("U", "unit")],
                             attrs=list(rattr) + [f'#[ts(rename = "X{k}")]'], derives=TS_ONLY, vals=False)
                types += [x1, y1]
                body.append(f'ctx.check_same_string("as-U-differs-from-declaring-the-field-with-type-U", &|| <X{k} as TS>::decl(), &|| <Y{k} as TS>::decl());')
                body.append('ctx.check_same_string("as-U-changes-the-dependencies", &|| format!("{:?}", { let mut d: Vec<String> = <X%d as TS>::dependencies().into_iter().map(|d| d.ts_name).collect(); d.sort(); d }), &|| format!("{:?}", { let mut d: Vec<String> = <Y%d as TS>::dependencies().into_iter().map(|d| d.ts_name).collect(); d.sort(); d }));' % (k, k))
        if "(" not in u:
            ai1 = st("AI1", [Field("bool", "keep"), Field(f, "f", [f'#[ts(as = "{u}", inline)]'])])
            ai2 = st("AI2", [Field("bool", "keep"), Field(uu, "f", ["#[ts(inline)]"])], attrs=['#[ts(rename = "AI1")]'])
            types += [ai1, ai2]
            body.append('ctx.check_same_string("as-U-differs-from-declaring-the-field-with-type-U", &|| <AI1 as TS>::decl(), &|| <AI2 as TS>::decl());')
        out.append(Case({"family": "as-other-type", "field": f, "as": u}, types, body, extra_items=class_no_ts if "NoTs" in f else "", decl_types=[]))
    # container- and variant-level `as`
    for u in ("St", "En", "Vec<St>", "Gp<St>", "Option<Ei>", "(i32, St)"):
        c = st("C", [Field("i32", "whatever")], attrs=[f'#[ts(as = "{u}")]'])
        ce = TypeDef("CE", "enum", variants=[Variant("X", "unit")], attrs=[f'#[ts(as = "{u}")]'], derives=TS_ONLY, vals=False)
        ev = TypeDef("EV", "enum", variants=[Variant("V", "named", [Field("i32", "x")], [f'#[ts(as = "{u}")]']), Variant("W", "unit")], derives=TS_ONLY, vals=False)
        ev2 = TypeDef("EV2", "enum", variants=[Variant("V", "tuple", [Field(u)]), Variant("W", "unit")], attrs=['#[ts(rename = "EV")]'], derives=TS_ONLY, vals=False)
        inl = f"<{u} as TS>::inline()" if not u.startswith("(") else f"<{u} as TS>::name()"
        body = [
            f'ctx.check_same_string("container-as-U-is-not-U", &|| <C as TS>::decl(), &|| format!("type C = {{}};", {inl}));',
            f'ctx.check_same_string("container-as-U-is-not-U", &|| <CE as TS>::decl(), &|| format!("type CE = {{}};", {inl}));',
            'ctx.check_same_string("variant-as-U-differs-from-a-newtype-variant-of-U", &|| <EV as TS>::decl(), &|| <EV2 as TS>::decl());',
        ]
        if u.startswith("("):
            body = body[2:]
            out.append(Case({"family": "as-container-or-variant", "as": u}, [ev, ev2], body, decl_types=[]))
        else:
            out.append(Case({"family": "as-container-or-variant", "as": u}, [c, ce, ev, ev2], body, decl_types=[]))
    return out
