"""E2 generator core: a tiny model of Rust type definitions, rendering of definitions, of `Vals`
impls (value domains) and of case modules / shard crates."""
import json
import os
import shutil
from dataclasses import dataclass, field as dfield
from typing import List, Optional

DERIVES = "#[derive(TS, Serialize, Deserialize, Clone, Debug)]"
DERIVES_TS_ONLY = "#[derive(TS, Clone, Debug)]"
VALUE_CAP = 48


@dataclass
class Field:
    ty: str
    name: Optional[str] = None          # None for tuple fields
    attrs: List[str] = dfield(default_factory=list)
    skipped: bool = False               # value is Default::default()

    def render(self):
        a = " ".join(self.attrs)
        a = a + " " if a else ""
        return f"{a}{self.name}: {self.ty}" if self.name else f"{a}{self.ty}"


@dataclass
class Variant:
    name: str
    kind: str                           # unit | tuple | named
    fields: List[Field] = dfield(default_factory=list)
    attrs: List[str] = dfield(default_factory=list)
    skipped: bool = False               # no value is produced for it

    def render(self):
        a = " ".join(self.attrs)
        a = a + " " if a else ""
        if self.kind == "unit":
            return f"{a}{self.name}"
        if self.kind == "tuple":
            return f"{a}{self.name}({', '.join(f.render() for f in self.fields)})"
        return f"{a}{self.name} {{ {', '.join(f.render() for f in self.fields)} }}"


@dataclass
class TypeDef:
    name: str
    kind: str                           # struct | enum
    shape: str = "named"                # struct: unit | tuple | named
    fields: List[Field] = dfield(default_factory=list)
    variants: List[Variant] = dfield(default_factory=list)
    attrs: List[str] = dfield(default_factory=list)
    generics: List[str] = dfield(default_factory=list)   # type parameter names
    generics_decl: Optional[str] = None  # e.g. "<'a, T: Clone, const N: usize>" if not just <T, U>
    generics_use: Optional[str] = None   # e.g. "<'a, T, N>"
    where: str = ""
    derives: str = DERIVES
    vals: bool = True

    def gdecl(self):
        if self.generics_decl is not None:
            return self.generics_decl
        return f"<{', '.join(self.generics)}>" if self.generics else ""

    def guse(self):
        if self.generics_use is not None:
            return self.generics_use
        return f"<{', '.join(self.generics)}>" if self.generics else ""

    def render(self):
        a = "\n".join(self.attrs)
        a = a + "\n" if a else ""
        head = f"{self.derives}\n{a}pub {self.kind} {self.name}{self.gdecl()}"
        if self.kind == "struct":
            if self.shape == "unit":
                return f"{head};"
            if self.shape == "tuple":
                w = f" {self.where}" if self.where else ""
                return f"{head}({', '.join(f.render() for f in self.fields)}){w};"
            w = f" {self.where}" if self.where else ""
            return f"{head}{w} {{ {', '.join(f.render() for f in self.fields)} }}"
        w = f" {self.where}" if self.where else ""
        return f"{head}{w} {{ {', '.join(v.render() for v in self.variants)} }}"

    # ---- value domain -------------------------------------------------------------------------
    def _ctor(self, path, kind, fields):
        """Rust expression building all values of one struct / variant body."""
        live = [f for f in fields if not f.skipped]
        if kind == "unit":
            return f"vec![{path}]"
        lets = "".join(f"let d{i} = <{f.ty} as Vals>::vals(); " for i, f in enumerate(live))
        lens = ", ".join(f"d{i}.len()" for i in range(len(live)))
        parts = []
        li = 0
        for f in fields:
            if f.skipped:
                e = "Default::default()"
            else:
                e = f"d{li}[ix[{li}]].clone()"
                li += 1
            parts.append(f"{f.name}: {e}" if kind == "named" else e)
        body = f"{path} {{ {', '.join(parts)} }}" if kind == "named" else f"{path}({', '.join(parts)})"
        if not live:
            return f"vec![{body.replace('ix', '_ix')}]"
        return f"{{ {lets}e2rt::mixed(&[{lens}], {VALUE_CAP}).into_iter().map(|ix| {body}).collect::<Vec<_>>() }}"

    def render_vals(self):
        if not self.vals:
            return ""
        bounds = ""
        if self.generics:
            bounds = "<" + ", ".join(f"{g}: Vals" for g in self.generics) + ">"
        if self.generics_decl is not None:
            return ""  # exotic generics: values are given by the case body
        head = f"impl{bounds} Vals for {self.name}{self.guse()} {{ fn vals() -> Vec<Self> {{"
        if self.kind == "struct":
            kind = {"unit": "unit", "tuple": "tuple", "named": "named"}[self.shape]
            if kind == "tuple" and not self.fields:
                expr = f"vec![{self.name}()]"
            elif kind == "named" and not self.fields:
                expr = f"vec![{self.name} {{}}]"
            else:
                expr = self._ctor(self.name, kind, self.fields)
            return f"{head} {expr} }} }}"
        parts = []
        for v in self.variants:
            if v.skipped:
                continue
            path = f"{self.name}::{v.name}"
            if v.kind == "tuple" and not v.fields:
                parts.append(f"out.extend(vec![{path}()]);")
            elif v.kind == "named" and not v.fields:
                parts.append(f"out.extend(vec![{path} {{}}]);")
            else:
                parts.append(f"out.extend({self._ctor(path, v.kind, v.fields)});")
        return f"{head} let mut out: Vec<Self> = vec![]; {' '.join(parts)} out }} }}"


@dataclass
class Case:
    klass: dict                          # coarse structural descriptor (what known-findings matchers see)
    types: List[TypeDef]
    body: List[str]                      # Rust statements inside the case closure (use `ctx`)
    strings: Optional[List[str]] = None  # witness strings (default ["", "a"])
    extra_items: str = ""                # extra Rust items
    decl_types: Optional[List[str]] = None  # Rust type expressions whose decl() joins the environment
    warmup: List[str] = dfield(default_factory=list)  # String-valued Rust expressions evaluated BEFORE any decl() of the case (call-order twin)

    def source(self):
        return "\n".join(t.render() for t in self.types) + ("\n" + self.extra_items if self.extra_items else "")


PRELUDE = r'''
#![allow(dead_code, unused_imports, non_snake_case, non_camel_case_types)]
pub use std::collections::{BTreeMap, BTreeSet, HashMap, HashSet};
pub use e2rt::Vals;
pub use serde::{Deserialize, Serialize};
pub use ts_rs::TS;

#[derive(TS, Serialize, Deserialize, Clone, Debug, Default, PartialEq)]
pub struct St { pub a: i32, pub b_c: String }
impl Vals for St { fn vals() -> Vec<Self> { vec![St { a: 0, b_c: String::new() }, St { a: -1, b_c: "x".into() }] } }

#[derive(TS, Serialize, Deserialize, Clone, Debug, Default, PartialEq)]
pub enum En { #[default] UnitA, NewB(i32), StrC { x: bool } }
impl Vals for En { fn vals() -> Vec<Self> { vec![En::UnitA, En::NewB(1), En::StrC { x: true }] } }

#[derive(TS, Serialize, Deserialize, Clone, Debug, Default, PartialEq, Eq, Hash, PartialOrd, Ord)]
pub enum Ue { #[default] Aa, Bb }
impl Vals for Ue { fn vals() -> Vec<Self> { vec![Ue::Aa, Ue::Bb] } }

#[derive(TS, Serialize, Deserialize, Clone, Debug, Default, PartialEq)]
pub struct Nt(pub i32);
impl Vals for Nt { fn vals() -> Vec<Self> { vec![Nt(0), Nt(1)] } }

#[derive(TS, Serialize, Deserialize, Clone, Debug, Default, PartialEq)]
pub struct Tu(pub i32, pub String);
impl Vals for Tu { fn vals() -> Vec<Self> { vec![Tu(0, String::new()), Tu(1, "a".into())] } }

#[derive(TS, Serialize, Deserialize, Clone, Debug, Default, PartialEq)]
pub struct Un;
impl Vals for Un { fn vals() -> Vec<Self> { vec![Un] } }

#[derive(TS, Serialize, Deserialize, Clone, Debug, Default, PartialEq)]
pub struct Gp<T> { pub v: T, pub l: Vec<T> }
impl<T: Vals> Vals for Gp<T> { fn vals() -> Vec<Self> { let t = T::vals(); let mut out = vec![]; for x in &t { out.push(Gp { v: x.clone(), l: vec![] }); } out.push(Gp { v: t[0].clone(), l: t.clone() }); out } }

/// internally tagged, adjacently tagged and untagged helpers (for nesting and flattening)
#[derive(TS, Serialize, Deserialize, Clone, Debug, PartialEq)]
#[serde(tag = "kind")]
pub enum Ei { Ia, Ib { n: i32 } }
impl Vals for Ei { fn vals() -> Vec<Self> { vec![Ei::Ia, Ei::Ib { n: 1 }] } }
impl Default for Ei { fn default() -> Self { Ei::Ia } }

#[derive(TS, Serialize, Deserialize, Clone, Debug, PartialEq)]
#[serde(tag = "tg", content = "ct")]
pub enum Ea { Aa, Ab(i32), Ac { s: String } }
impl Vals for Ea { fn vals() -> Vec<Self> { vec![Ea::Aa, Ea::Ab(1), Ea::Ac { s: "a".into() }] } }

#[derive(TS, Serialize, Deserialize, Clone, Debug, PartialEq)]
#[serde(untagged)]
pub enum Eu { Ua { p: i32 }, Ub(String) }
impl Vals for Eu { fn vals() -> Vec<Self> { vec![Eu::Ua { p: 1 }, Eu::Ub("a".into())] } }

pub fn decls() -> Vec<String> {
    vec![
        <St as TS>::decl(), <En as TS>::decl(), <Ue as TS>::decl(), <Nt as TS>::decl(), <Tu as TS>::decl(),
        <Un as TS>::decl(), <Gp<ts_rs::Dummy> as TS>::decl(), <Ei as TS>::decl(), <Ea as TS>::decl(), <Eu as TS>::decl(),
    ]
}
'''


def rust_raw(s):
    """A Rust raw string literal holding s."""
    n = 1
    while '"' + "#" * n in s:
        n += 1
    h = "#" * n
    return f'r{h}"{s}"{h}'


def render_case(idx, case):
    cid = f"c{idx:05d}"
    parts = ["use crate::prelude::*;", ""]
    for t in case.types:
        parts.append(t.render())
        v = t.render_vals()
        if v:
            parts.append(v)
    if case.extra_items:
        parts.append(case.extra_items)
    decl_types = case.decl_types
    if decl_types is None:
        decl_types = []
        for t in case.types:
            if t.generics_use is not None:
                continue
            args = ", ".join("ts_rs::Dummy" for _ in t.generics)
            decl_types.append(f"{t.name}<{args}>" if t.generics else t.name)
    decl_push = " ".join(f"d.push(<{dt} as TS>::decl());" for dt in decl_types)
    strings = ""
    if case.strings is not None:
        strings = "ctx.strings = vec![" + ", ".join(json.dumps(s) + ".to_string()" for s in case.strings) + "];"
    body = "\n        ".join(case.body)
    warm = " ".join(f"let _ = std::panic::catch_unwind(|| {w});" for w in case.warmup)
    parts.append(f"""
pub fn run(ctx: &mut e2rt::Ctx) {{
    ctx.case("{cid}", {rust_raw(json.dumps(case.klass, sort_keys=True))}, {rust_raw(case.source())},
        &|| {{ {warm} let mut d = crate::prelude::decls(); {decl_push} d }},
        &|ctx| {{
        {strings}
        {body}
    }});
}}
""")
    return cid, "\n".join(parts)


def locked_version(repo, crate):
    """Version of `crate` in the repository's Cargo.lock (the generated crates pin to it, so that
    adding dependencies never re-resolves serde to a newer release)."""
    import re
    lock = open(os.path.join(repo, "Cargo.lock")).read()
    m = re.search(r'name = "%s"\nversion = "([^"]+)"' % re.escape(crate), lock)
    return m.group(1)


def sync_tree(root, files):
    """Make directory `root` contain exactly `files` (relpath -> text); untouched files keep their
    mtime so that cargo does not rebuild them."""
    os.makedirs(root, exist_ok=True)
    keep = set()
    for rel, text in files.items():
        p = os.path.join(root, rel)
        keep.add(os.path.normpath(p))
        os.makedirs(os.path.dirname(p), exist_ok=True)
        try:
            with open(p) as f:
                if f.read() == text:
                    continue
        except OSError:
            pass
        with open(p, "w") as f:
            f.write(text)
    for d, _, fs in os.walk(root):
        for fn in fs:
            p = os.path.normpath(os.path.join(d, fn))
            if p not in keep and fn != "Cargo.lock":
                os.remove(p)


def alias_crate(text, alias):
    """The same Rust source for a crate that knows ts-rs only under the name `alias`: every derive of TS
    gets `#[ts(crate = "<alias>")]` and paths through `ts_rs::` go through the alias."""
    import re
    text = re.sub(r'(#\[derive\(TS\b[^\]]*\)\])', lambda m: m.group(1) + f'\n#[ts(crate = "{alias}")]', text)
    return text.replace("ts_rs::", alias + "::")


def corpus_files(corpus, cases, n_shards, repo="/repo", verif="/verif", features=("serde-json-impl",), exclude=(), extra_deps="",
                 crate_alias=None):
    """Files of the shard crates `<corpus>_<i>` (paths relative to the corpus directory)."""
    files, index, crates = _corpus_files(corpus, cases, n_shards, repo, verif, features, exclude, extra_deps)
    if crate_alias:
        for rel in list(files):
            if rel.endswith("Cargo.toml"):
                files[rel] = files[rel].replace("ts-rs = { path", crate_alias + ' = { package = "ts-rs", path')
            elif rel.endswith(".rs"):
                files[rel] = alias_crate(files[rel], crate_alias)
    files["index.json"] = json.dumps(index)
    return files, crates


def _corpus_files(corpus, cases, n_shards, repo, verif, features, exclude, extra_deps):
    files = {}
    shards = [[] for _ in range(n_shards)]
    for i, c in enumerate(cases):
        if f"c{i:05d}" in exclude:
            continue
        shards[i % n_shards].append((i, c))
    index = {}
    feat = ", ".join(json.dumps(f) for f in features)
    serde_ver, serde_json_ver = locked_version(repo, "serde"), locked_version(repo, "serde_json")
    for si, sh in enumerate(shards):
        d = f"s{si}"
        files[f"{d}/Cargo.toml"] = f"""[package]
name = "{corpus}_{si}"
version = "0.1.0"
edition = "2021"

[dependencies]
ts-rs = {{ path = "{repo}/ts-rs", features = [{feat}] }}
e2rt = {{ path = "{verif}/harness/e2rt" }}
serde = {{ version = "={serde_ver}", features = ["derive", "rc"] }}
serde_json = "={serde_json_ver}"
{extra_deps}"""
        mods = []
        runs = []
        for i, c in sh:
            cid, text = render_case(i, c)
            files[f"{d}/src/cases/{cid}.rs"] = text
            mods.append(f"pub mod {cid};")
            runs.append(f"cases::{cid}::run(&mut ctx);")
            index[cid] = {"shard": si, "class": c.klass, "source": c.source()}
        files[f"{d}/src/prelude.rs"] = PRELUDE.replace("#![allow(dead_code, unused_imports, non_snake_case, non_camel_case_types)]\n", "")
        files[f"{d}/src/main.rs"] = ("#![allow(dead_code, unused_imports, unused_variables, non_snake_case, non_camel_case_types, clippy::all)]\n"
                                     "mod prelude;\nmod cases {\n" + "\n".join(mods) + "\n}\n"
                                     "fn main() {\n    let mut ctx = e2rt::Ctx::from_args();\n    " + "\n    ".join(runs) + "\n    ctx.finish();\n}\n")
    return files, index, [f"{corpus}_{si}" for si in range(n_shards)]


def root_manifest(members):
    return ("[workspace]\nresolver = \"2\"\nmembers = [\n" + "".join(f'  "{m}",\n' for m in members) + "]\n\n"
            "[profile.dev]\ndebug = false\nopt-level = 0\nincremental = false\n\n"
            "[profile.dev.package.\"*\"]\nopt-level = 1\n")
