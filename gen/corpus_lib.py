"""C12 corpus: every built-in `impl TS` of the standard library (third-party crates: corpus_lib3)."""
from e2core import Case, Field, TypeDef


def can_inline(ty):
    """ts-rs documents (by an explicit panic message) that tuples and ranges cannot be inlined."""
    return "(" not in ty and "Range" not in ty


def optional_fields_noop(ty):
    """`#[ts(optional_fields)]` leaves every field that is not an `Option` alone - whatever the library type
    says about its `OptionInnerType`."""
    if ty.replace(" ", "").startswith(("Option<", "std::option::Option<")):
        return [], []
    wo = TypeDef("WO", "struct", "named", [Field(ty, "f")], attrs=['#[ts(optional_fields, rename = "W")]'], derives="#[derive(TS)]", vals=False)
    return [wo], ['ctx.check_same_string("optional_fields-changes-a-field-that-is-no-option", &|| <W as TS>::decl(), &|| <WO as TS>::decl());']


def wrappers(ty):
    if not can_inline(ty):
        w = TypeDef("W", "struct", "named", [Field(ty, "f")], derives="#[derive(TS)]", vals=False)
        t, b = optional_fields_noop(ty)
        return [w] + t, ['ctx.c03::<W>("W");'] + b
    t0, b0 = wrappers_both(ty)
    t, b = optional_fields_noop(ty)
    return t0 + t, b0 + b


def wrappers_both(ty):
    """A derived struct with one field of the library type, by name and inlined: its dependencies
    must be exactly the free names of its declaration (what the exported file would have to import)."""
    w = TypeDef("W", "struct", "named", [Field(ty, "f")], derives="#[derive(TS)]", vals=False)
    wi = TypeDef("WI", "struct", "named", [Field(ty, "f", ["#[ts(inline)]"])], derives="#[derive(TS)]", vals=False)
    return [w, wi], ['ctx.c03::<W>("W");', 'ctx.c03::<WI>("WI");',
                     'ctx.check_equiv("inline-of-library-type-differs-from-its-name", &|| <W as TS>::inline(), &|| <WI as TS>::inline());']


def vcase(kind, ty, vals, deser=True, free=True, deps=None, strings=None):
    """ty: Rust type; vals: Rust expressions; deser: also check witnesses through Deserialize;
    free: witnesses may use arbitrary strings/numbers (no format constraint)."""
    body = [f'ctx.c12_values::<{ty}>({q(ty)}, vec![{", ".join(vals)}]);']
    if deser and free:
        body.append(f'ctx.c12_witnesses::<{ty}>({q(ty)});')
    types = []
    if deps is not None:
        types, extra = wrappers(ty)
        body.append(f'ctx.c12_deps::<W>({q(ty)}, &[{", ".join(q(d) for d in deps)}]);')
        body += extra
    return Case({"family": "library", "kind": kind, "type": ty}, types, body, strings=strings)


def scase(kind, ty, expect, deps=None):
    body = [f'ctx.c12_shape::<{ty}>({q(ty)}, {q(expect)});']
    types = []
    if deps is not None:
        types, extra = wrappers(ty)
        body.append(f'ctx.c12_deps::<W>({q(ty)}, &[{", ".join(q(d) for d in deps)}]);')
        body += extra
    return Case({"family": "library-shape", "kind": kind, "type": ty}, types, body)


def q(s):
    import json
    return json.dumps(s)


ST = "St { a: 1, b_c: \"x\".into() }"


def build(tier):
    out = []
    # ---- leaves
    for t in ("u8", "i8", "u16", "i16", "u32", "i32", "usize", "isize", "u64", "i64", "u128", "i128"):
        vals = [f"0 as {t}", f"1 as {t}", f"{t}::MAX", f"{t}::MIN"]
        out.append(vcase("integer", t, vals))
    for t in ("NonZeroU8", "NonZeroI8", "NonZeroU16", "NonZeroI16", "NonZeroU32", "NonZeroI32", "NonZeroUsize", "NonZeroIsize",
              "NonZeroU64", "NonZeroI64", "NonZeroU128", "NonZeroI128"):
        out.append(vcase("nonzero", f"std::num::{t}", [f"std::num::{t}::new(1).unwrap()", f"std::num::{t}::new(2).unwrap()", f"std::num::{t}::MAX"]))
    for t in ("f32", "f64"):
        out.append(vcase("float", t, ["0.0", "1.5", "-2.25", f"{t}::MAX", f"{t}::MIN_POSITIVE"]))
    out.append(vcase("bool", "bool", ["true", "false"]))
    out.append(vcase("char", "char", ["'a'", "'é'", "'\\u{1F600}'"], strings=["a", "b"]))
    out.append(vcase("string", "String", ['String::new()', '"a".to_string()', '"é\\"\\\\".to_string()']))
    out.append(vcase("string", "Box<str>", ['"a".into()']))
    out.append(vcase("string", "std::path::PathBuf", ['std::path::PathBuf::from("a/b")', 'std::path::PathBuf::new()']))
    out.append(vcase("string", "Box<std::path::Path>", ['std::path::PathBuf::from("a/b").into_boxed_path()']))
    for t, v in (("Ipv4Addr", '"127.0.0.1"'), ("Ipv6Addr", '"::1"'), ("IpAddr", '"10.0.0.1"'), ("SocketAddrV4", '"127.0.0.1:80"'),
                 ("SocketAddrV6", '"[::1]:80"'), ("SocketAddr", '"127.0.0.1:8080"')):
        out.append(vcase("address", f"std::net::{t}", [f'{v}.parse::<std::net::{t}>().unwrap()'], free=False))
    out.append(vcase("unit", "()", ["()"]))
    # ---- unary constructors
    inner = [("i32", ["1", "-1"], []), ("St", [ST], ["St"]), ("Option<String>", ["None", 'Some("a".to_string())'], []), ("Ue", ["Ue::Aa", "Ue::Bb"], ["Ue"]),
             ("Gp<St>", [f"Gp {{ v: {ST}, l: vec![] }}"], ["Gp", "St"])]
    for it, iv, idep in inner:
        out.append(vcase("option", f"Option<{it}>", ["None"] + [f"Some({v})" for v in iv], deps=idep))
        out.append(vcase("vec", f"Vec<{it}>", ["vec![]"] + [f"vec![{v}]" for v in iv] + [f"vec![{iv[0]}, {iv[-1]}]"], deps=idep))
        out.append(vcase("slice", f"Box<[{it}]>", ["vec![].into_boxed_slice()", f"vec![{iv[0]}].into_boxed_slice()"], deps=idep))
        out.append(vcase("box", f"Box<{it}>", [f"Box::new({v})" for v in iv], deps=idep))
        out.append(vcase("rc", f"std::rc::Rc<{it}>", [f"std::rc::Rc::new({v})" for v in iv], deps=idep))
        out.append(vcase("arc", f"std::sync::Arc<{it}>", [f"std::sync::Arc::new({v})" for v in iv], deps=idep))
        out.append(vcase("refcell", f"std::cell::RefCell<{it}>", [f"std::cell::RefCell::new({v})" for v in iv], deps=idep))
        out.append(vcase("mutex", f"std::sync::Mutex<{it}>", [f"std::sync::Mutex::new({v})" for v in iv], deps=idep))
        out.append(vcase("rwlock", f"std::sync::RwLock<{it}>", [f"std::sync::RwLock::new({v})" for v in iv], deps=idep))
        out.append(vcase("phantom", f"std::marker::PhantomData<{it}>", ["std::marker::PhantomData"], deps=None))
        out.append(vcase("weak", f"std::sync::Weak<{it}>", ["std::sync::Weak::new()", f"{{ let a = std::sync::Arc::new({iv[0]}); let w = std::sync::Arc::downgrade(&a); std::mem::forget(a); w }}"], deser=False, deps=idep))
        out.append(vcase("range", f"std::ops::Range<{it}>", [f"({iv[0]})..({iv[-1]})"], deps=idep))
        out.append(vcase("range", f"std::ops::RangeInclusive<{it}>", [f"({iv[0]})..=({iv[-1]})"], deps=idep))
        out.append(vcase("array", f"[{it}; 2]", [f"[{iv[0]}, {iv[-1]}]"], deps=idep))
    out.append(vcase("cell", "std::cell::Cell<i32>", ["std::cell::Cell::new(1)"]))
    out.append(vcase("cow", "std::borrow::Cow<'static, str>", ['std::borrow::Cow::Borrowed("a")', 'std::borrow::Cow::Owned("b".to_string())']))
    out.append(vcase("cow", "std::borrow::Cow<'static, St>", [f"std::borrow::Cow::Owned({ST})"], deser=False, deps=["St"]))
    out.append(vcase("ref", "&'static str", ['"a"'], deser=False))
    out.append(vcase("set", "HashSet<i32>", ["HashSet::new()", "[1].into_iter().collect()"]))
    out.append(vcase("set", "BTreeSet<String>", ["BTreeSet::new()", '["a".to_string(), "b".to_string()].into_iter().collect()']))
    out.append(vcase("set", "BTreeSet<Ue>", ["[Ue::Aa, Ue::Bb].into_iter().collect()"], deps=["Ue"]))
    out.append(scase("set", "BTreeSet<Gp<St>>", "Array<Gp<St>>", deps=["Gp", "St"]))
    out.append(scase("set", "HashSet<Gp<St>>", "Array<Gp<St>>", deps=["Gp", "St"]))
    out.append(scase("map", "BTreeMap<String, Gp<St>>", "{ [key in string]?: Gp<St> }", deps=["Gp", "St"]))
    out.append(scase("map", "HashMap<Ue, Gp<St>>", "{ [key in Ue]?: Gp<St> }", deps=["Gp", "St", "Ue"]))
    out.append(scase("map", "BTreeMap<Box<Ue>, St>", "{ [key in Ue]?: St }", deps=["St", "Ue"]))
    out.append(scase("map", "HashMap<std::sync::Arc<Ue>, Vec<Gp<St>>>", "{ [key in Ue]?: Array<Gp<St>> }", deps=["Gp", "St", "Ue"]))
    out.append(scase("result", "Result<Box<Ue>, std::rc::Rc<St>>", "{ Ok : Ue } | { Err : St }", deps=["St", "Ue"]))
    out.append(scase("tuple", "(Box<Ue>, Option<std::sync::Arc<St>>)", "[Ue, St | null]", deps=["St", "Ue"]))
    out.append(scase("slice", "Box<[Gp<St>]>", "Array<Gp<St>>", deps=["Gp", "St"]))
    out.append(scase("range", "std::ops::RangeInclusive<Gp<St>>", "{ start: Gp<St>, end: Gp<St>, }", deps=["Gp", "St"]))
    out.append(scase("array", "[Gp<St>; 64]", "[" + ", ".join(["Gp<St>"] * 64) + "]", deps=["Gp", "St"]))
    out.append(scase("result", "Result<Gp<St>, Vec<Gp<Ue>>>", "{ Ok : Gp<St> } | { Err : Array<Gp<Ue>> }", deps=["Gp", "St", "Ue"]))
    # ---- arrays of every length
    for n in range(0, 66):
        if n <= 32:
            out.append(vcase("array-length", f"[u8; {n}]", [f"[7u8; {n}]"], deser=(n in (0, 1, 2, 3, 32))))
        expect = "Array<number>" if n > 64 else "[" + ", ".join(["number"] * n) + "]"
        out.append(scase("array-length", f"[u8; {n}]", expect, deps=[]))
    out.append(scase("array-length", "[St; 64]", "[" + ", ".join(["St"] * 64) + "]", deps=["St"]))
    out.append(scase("array-length", "[St; 65]", "Array<St>", deps=["St"]))
    out.append(scase("array-length", "[Option<i32>; 66]", "Array<number | null>"))
    # ---- tuples of arity 1..=10
    elems = [("i32", "1", "number"), ("String", '"a".to_string()', "string"), ("bool", "true", "boolean"), ("St", ST, "St"), ("Option<i32>", "None", "number | null"),
             ("u64", "2", "bigint"), ("()", "()", "null"), ("Ue", "Ue::Bb", "Ue"), ("f64", "1.5", "number"), ("Vec<i32>", "vec![1]", "Array<number>")]
    for n in range(1, 11):
        tys = ", ".join(e[0] for e in elems[:n]) + ("," if n == 1 else "")
        vals = ", ".join(e[1] for e in elems[:n]) + ("," if n == 1 else "")
        deps = sorted({d for d in ("St", "Ue") if any(e[0] == d for e in elems[:n])})
        out.append(vcase("tuple", f"({tys})", [f"({vals})"], deps=deps))
    # ---- maps with every supported key type
    for kt, kv, kdep in (("String", '"k".to_string()', []), ("i32", "-1", []), ("u64", "7", []), ("Ue", "Ue::Aa", ["Ue"]), ("char", "'c'", []), ("bool", "true", []),
                         ("u8", "1", []), ("i128", "5", [])):
        for m in ("HashMap", "BTreeMap"):
            out.append(vcase("map", f"{m}<{kt}, i32>", [f"{m}::new()", f"[({kv}, 1)].into_iter().collect()"], deps=kdep))
        out.append(vcase("map", f"BTreeMap<{kt}, St>", [f"[({kv}, {ST})].into_iter().collect()"], deps=sorted(set(kdep + ["St"]))))
    out.append(vcase("result", "Result<i32, String>", ["Ok(1)", 'Err("e".to_string())']))
    out.append(vcase("result", "Result<St, Ue>", [f"Ok({ST})", "Err(Ue::Aa)"], deps=["St", "Ue"]))
    # ---- compositions (depth 2 and a covering set at depth 3)
    comps = [
        ("Option<Vec<St>>", ["None", "Some(vec![])", f"Some(vec![{ST}])"], ["St"]),
        ("Vec<Option<St>>", ["vec![None]", f"vec![Some({ST}), None]"], ["St"]),
        ("Option<Option<i32>>", ["None", "Some(None)", "Some(Some(1))"], []),
        ("HashMap<String, Vec<St>>", ["HashMap::new()", f'[("k".to_string(), vec![{ST}])].into_iter().collect()'], ["St"]),
        ("Vec<(i32, String)>", ["vec![]", 'vec![(1, "a".to_string())]'], []),
        ("Option<Box<St>>", ["None", f"Some(Box::new({ST}))"], ["St"]),
        ("Result<Vec<St>, Option<String>>", ["Ok(vec![])", "Err(None)", 'Err(Some("e".to_string()))'], ["St"]),
        ("[Option<St>; 2]", [f"[None, Some({ST})]"], ["St"]),
        ("Box<[Vec<i32>]>", ["vec![vec![1], vec![]].into_boxed_slice()"], []),
        ("BTreeMap<Ue, Option<Vec<St>>>", [f"[(Ue::Aa, None), (Ue::Bb, Some(vec![{ST}]))].into_iter().collect()"], ["St", "Ue"]),
        ("Vec<Vec<Vec<i32>>>", ["vec![vec![vec![1]]]", "vec![vec![]]"], []),
        ("Option<(St, Vec<Ue>)>", [f"Some(({ST}, vec![Ue::Aa]))", "None"], ["St", "Ue"]),
        ("std::sync::Arc<std::sync::Mutex<Vec<St>>>", [f"std::sync::Arc::new(std::sync::Mutex::new(vec![{ST}]))"], ["St"]),
        ("Box<Option<std::rc::Rc<St>>>", [f"Box::new(Some(std::rc::Rc::new({ST})))", "Box::new(None)"], ["St"]),
        ("std::ops::Range<Option<i32>>", ["None..Some(1)"], []),
        ("Gp<Vec<St>>", [f"Gp {{ v: vec![{ST}], l: vec![vec![]] }}"], ["St", "Gp"]),
        ("serde_json::Value", ['serde_json::json!(null)', 'serde_json::json!(1)', 'serde_json::json!("s")', 'serde_json::json!(true)', 'serde_json::json!([1, "a", null])', 'serde_json::json!({"a": {"b": [1]}})'], ["JsonValue"]),
        ("serde_json::Number", ["serde_json::Number::from(1)", "serde_json::Number::from_f64(1.5).unwrap()"], []),
        ("serde_json::Map<String, serde_json::Value>", ["serde_json::Map::new()", '{ let mut m = serde_json::Map::new(); m.insert("k".into(), serde_json::json!([1])); m }'], ["JsonValue"]),
    ]
    # ---- systematic compositions: every word of length 3 over the constructor alphabet applied to a leaf
    # (quick: leaf i32 / thorough: also a declared struct), with values built compositionally so that the
    # "empty" answer of every layer (None, [], {}, Err, a dead Weak) occurs under every other layer
    ctors = {
        "option": (lambda t: f"Option<{t}>", lambda v: ["None", f"Some({v[0]})", f"Some({v[-1]})"]),
        "vec": (lambda t: f"Vec<{t}>", lambda v: ["vec![]", f"vec![{v[0]}, {v[-1]}]"]),
        "box": (lambda t: f"Box<{t}>", lambda v: [f"Box::new({v[0]})", f"Box::new({v[-1]})"]),
        "array": (lambda t: f"[{t}; 2]", lambda v: [f"[{v[0]}, {v[-1]}]"]),
        "map": (lambda t: f"BTreeMap<String, {t}>", lambda v: ["BTreeMap::new()", f'[("k".to_string(), {v[0]}), ("l".to_string(), {v[-1]})].into_iter().collect()']),
        "tuple": (lambda t: f"({t}, bool)", lambda v: [f"({v[0]}, true)", f"({v[-1]}, false)"]),
        "result": (lambda t: f"Result<{t}, String>", lambda v: [f"Ok({v[0]})", f"Ok({v[-1]})", 'Err("e".to_string())']),
        "weak": (lambda t: f"std::sync::Weak<{t}>", lambda v: ["std::sync::Weak::new()", f"{{ let a = std::sync::Arc::new({v[-1]}); let w = std::sync::Arc::downgrade(&a); std::mem::forget(a); w }}"]),
    }
    leaves = [("i32", ["1", "-1"], [])] + ([] if tier == "quick" else [("St", [ST], ["St"])])
    import itertools as _it
    for word in _it.product(ctors, repeat=3):
        if word.count("weak") > 1:
            continue
        for lt, lv, ldeps in leaves:
            ty, vals = lt, lv
            for c in reversed(word):
                mk, mv = ctors[c]
                ty, vals = mk(ty), mv(vals)
            c = vcase("composition-3", ty, vals, deps=ldeps, deser=("weak" not in word))
            c.klass["word"] = list(word)
            out.append(c)
    for ty, vals, deps in comps:
        c = vcase("composition", ty, vals, deps=deps, deser=("Rc<" not in ty and "Arc<" not in ty))
        if "serde_json" in ty:
            c.decl_types = ["serde_json::Value"]
        out.append(c)
    return out
