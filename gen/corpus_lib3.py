"""C12 corpus, part 2: feature-gated third-party types (all crates are in the offline cargo cache)."""
from corpus_lib import vcase, scase

FEATURES = ("serde-json-impl", "chrono-impl", "bigdecimal-impl", "uuid-impl", "bson-uuid-impl", "bytes-impl", "url-impl",
            "indexmap-impl", "ordered-float-impl", "heapless-impl", "semver-impl", "smol_str-impl", "tokio-impl")

EXTRA_DEPS = '''chrono = { version = "0.4", features = ["serde"] }
bigdecimal = { version = "0.4", features = ["serde"] }
uuid = { version = "1", features = ["serde"] }
bson = "2"
bytes = { version = "1", features = ["serde"] }
url = { version = "2", features = ["serde"] }
indexmap = { version = "2", features = ["serde"] }
ordered-float = { version = "4", features = ["serde"] }
heapless = { version = "0.8", features = ["serde"] }
semver = { version = "1", features = ["serde"] }
smol_str = { version = "0.3", features = ["serde"] }
tokio = { version = "1", features = ["sync"] }
'''


def build(tier):
    out = []
    v = lambda kind, ty, vals, **kw: out.append(vcase(kind, ty, vals, free=False, **kw))
    v("chrono", "chrono::NaiveDate", ["chrono::NaiveDate::from_ymd_opt(2020, 1, 2).unwrap()"])
    v("chrono", "chrono::NaiveTime", ["chrono::NaiveTime::from_hms_opt(1, 2, 3).unwrap()"])
    v("chrono", "chrono::NaiveDateTime", ["chrono::NaiveDate::from_ymd_opt(2020, 1, 2).unwrap().and_hms_opt(1, 2, 3).unwrap()"])
    v("chrono", "chrono::DateTime<chrono::Utc>", ["chrono::DateTime::<chrono::Utc>::from_timestamp(0, 0).unwrap()"])
    v("chrono", "chrono::DateTime<chrono::FixedOffset>", ["chrono::DateTime::<chrono::Utc>::from_timestamp(0, 0).unwrap().fixed_offset()"])
    v("chrono", "chrono::Month", ["chrono::Month::January"])
    v("chrono", "chrono::Weekday", ["chrono::Weekday::Mon"])
    out.append(scase("chrono", "chrono::Duration", "string"))
    v("bigdecimal", "bigdecimal::BigDecimal", ['"1.5".parse::<bigdecimal::BigDecimal>().unwrap()'])
    v("uuid", "uuid::Uuid", ["uuid::Uuid::nil()"])
    v("url", "url::Url", ['url::Url::parse("http://example.com/a").unwrap()'])
    v("semver", "semver::Version", ["semver::Version::new(1, 2, 3)"])
    v("smol_str", "smol_str::SmolStr", ['smol_str::SmolStr::new("a")'])
    v("bson", "bson::oid::ObjectId", ["bson::oid::ObjectId::from_bytes([1; 12])"])
    v("bson", "bson::Uuid", ["bson::Uuid::from_bytes([1; 16])"])
    v("bytes", "bytes::Bytes", ["bytes::Bytes::from_static(b\"ab\")", "bytes::Bytes::new()"])
    v("bytes", "bytes::BytesMut", ["bytes::BytesMut::from(&b\"ab\"[..])"])
    v("ordered-float", "ordered_float::OrderedFloat<f64>", ["ordered_float::OrderedFloat(1.5)"])
    v("ordered-float", "ordered_float::OrderedFloat<f32>", ["ordered_float::OrderedFloat(1.5f32)"])
    v("indexmap", "indexmap::IndexMap<String, St>", ["indexmap::IndexMap::new()", '[("k".to_string(), St { a: 1, b_c: "x".into() })].into_iter().collect()'], deps=["St"])
    v("indexmap", "indexmap::IndexSet<Ue>", ["[Ue::Aa].into_iter().collect()"], deps=["Ue"])
    v("heapless", "heapless::Vec<i32, 4>", ["heapless::Vec::new()", "heapless::Vec::from_slice(&[1, 2]).unwrap()"])
    out.append(scase("indexmap", "indexmap::IndexSet<Gp<St>>", "Array<Gp<St>>", deps=["Gp", "St"]))
    out.append(scase("indexmap", "indexmap::IndexMap<String, Gp<St>>", "{ [key in string]?: Gp<St> }", deps=["Gp", "St"]))
    out.append(scase("heapless", "heapless::Vec<Gp<St>, 4>", "Array<Gp<St>>", deps=["Gp", "St"]))
    out.append(scase("indexmap", "indexmap::IndexMap<Box<Ue>, Gp<St>>", "{ [key in Ue]?: Gp<St> }", deps=["Gp", "St", "Ue"]))
    out.append(scase("serde_json", "serde_json::Map<Box<Ue>, St>", "{ [key in Ue]?: St }", deps=["St", "Ue"]))
    out.append(scase("tokio", "tokio::sync::Mutex<Gp<St>>", "Gp<St>", deps=["Gp", "St"]))
    out.append(scase("tokio", "tokio::sync::Mutex<St>", "St", deps=["St"]))
    out.append(scase("tokio", "tokio::sync::RwLock<Vec<St>>", "Array<St>", deps=["St"]))
    out.append(scase("tokio", "tokio::sync::OnceCell<Option<i32>>", "number | null"))
    return out
