"""C04 (ii): string contents reaching the output - rename / tag / content values."""
from e2core import Case, Field, TypeDef, Variant

TS_ONLY = "#[derive(TS)]"
SIGMA = [("plain", "a"), ("dash", "a-b"), ("space", "a b"), ("digit-first", "1a"), ("empty", ""), ("quote", '"'), ("inner-quote", 'a"b'),
         ("backslash", "\\"), ("trailing-backslash", "b\\"), ("apostrophe", "'"), ("backtick", "`"), ("template", "${x}"),
         ("comment-end", "*/"), ("comment-start", "/*"), ("line-comment", "//"), ("newline", "a\nb"), ("tab", "a\tb"),
         ("latin", "é"), ("cjk", "日本"), ("dollar", "$"), ("underscore", "_"), ("constructor", "constructor"), ("proto", "__proto__"),
         ("unicode-escape-like", "\\u0041"), ("crlf", "a\r\nb"), ("nul", "a\0b"),
         ("at-first", "@type"), ("dash-first", "-x"), ("hash", "#"), ("dot-inside", "a.b"), ("slash-inside", "a/b"), ("leading-space", " a"),
         ("digit-only", "0"), ("non-ascii-word", "ünï"), ("dollar-first", "$ref"), ("colon", "a:b"), ("question-mark", "a?")]


def rs(s):
    """Rust string literal."""
    out = '"'
    for c in s:
        if c == '"':
            out += '\\"'
        elif c == "\\":
            out += "\\\\"
        elif c == "\n":
            out += "\\n"
        elif c == "\r":
            out += "\\r"
        elif c == "\t":
            out += "\\t"
        elif c == "\0":
            out += "\\0"
        else:
            out += c
    return out + '"'


def build(tier):
    out = []

    def case(pos, kind, s, td, keys=(), lits=()):
        body = [f'ctx.c04_strings::<{td.name}>({rs(td.name)}, &[{", ".join(rs(k) for k in keys)}], &[{", ".join(rs(l) for l in lits)}]);']
        out.append(Case({"family": "string-content", "position": pos, "string_kind": kind}, [td], body))
    for kind, s in SIGMA:
        lit = rs(s)
        case("field-rename", kind, s, TypeDef("X", "struct", "named", [Field("i32", "a", [f"#[ts(rename = {lit})]"]), Field("bool", "b")], derives=TS_ONLY, vals=False), keys=[s, "b"])
        case("variant-field-rename", kind, s, TypeDef("X", "enum", variants=[Variant("V", "named", [Field("i32", "a", [f"#[ts(rename = {lit})]"])]), Variant("W", "unit")], derives=TS_ONLY, vals=False), keys=[s], lits=["W"])
        case("field-rename+type-override", kind, s, TypeDef("X", "struct", "named", [Field("i32", "a", [f"#[ts(rename = {lit}, type = \"string\")]"]), Field("bool", "b", ['#[ts(type = "boolean")]'])], derives=TS_ONLY, vals=False), keys=[s, "b"])
        case("variant-field-rename+type-override", kind, s, TypeDef("X", "enum", variants=[Variant("V", "named", [Field("i32", "a", [f"#[ts(rename = {lit}, type = \"string\")]"])]), Variant("W", "unit")], attrs=['#[ts(tag = "t")]'], derives=TS_ONLY, vals=False), keys=[s, "t"], lits=["V", "W"])
        case("struct-tag", kind, s, TypeDef("X", "struct", "named", [Field("i32", "a")], attrs=[f"#[ts(tag = {lit})]"], derives=TS_ONLY, vals=False), keys=[s, "a"], lits=["X"])
        vs = [Variant("A", "unit"), Variant("B", "tuple", [Field("i32")]), Variant("C", "named", [Field("i32", "x")])]
        case("enum-tag-internal", kind, s, TypeDef("X", "enum", variants=[vs[0], Variant("C", "named", [Field("i32", "x")])], attrs=[f"#[ts(tag = {lit})]"], derives=TS_ONLY, vals=False), keys=[s, "x"], lits=["A", "C"])
        case("enum-tag-adjacent", kind, s, TypeDef("X", "enum", variants=vs, attrs=[f'#[ts(tag = {lit}, content = "c")]'], derives=TS_ONLY, vals=False), keys=[s, "c"], lits=["A", "B", "C"])
        case("enum-content", kind, s, TypeDef("X", "enum", variants=vs, attrs=[f'#[ts(tag = "t", content = {lit})]'], derives=TS_ONLY, vals=False), keys=["t", s], lits=["A", "B", "C"])
        for rp, rattr in (("external", []), ("internal", ['#[ts(tag = "t")]']), ("adjacent", ['#[ts(tag = "t", content = "c")]'])):
            vr = [Variant("A", "unit", attrs=[f"#[ts(rename = {lit})]"]), Variant("C", "named", [Field("i32", "x")], attrs=[f"#[ts(rename = {lit + ' '.strip()})]"] if False else [])]
            vr2 = [Variant("A", "unit"), Variant("C", "named", [Field("i32", "x")], attrs=[f"#[ts(rename = {lit})]"])]
            if rp == "external":
                case(f"variant-rename-{rp}-unit", kind, s, TypeDef("X", "enum", variants=vr, attrs=list(rattr), derives=TS_ONLY, vals=False), keys=["C"], lits=[s])
                case(f"variant-rename-{rp}-struct", kind, s, TypeDef("X", "enum", variants=vr2, attrs=list(rattr), derives=TS_ONLY, vals=False), keys=[s], lits=["A"])
            else:
                case(f"variant-rename-{rp}-unit", kind, s, TypeDef("X", "enum", variants=vr, attrs=list(rattr), derives=TS_ONLY, vals=False), lits=[s, "C"])
                case(f"variant-rename-{rp}-struct", kind, s, TypeDef("X", "enum", variants=vr2, attrs=list(rattr), derives=TS_ONLY, vals=False), lits=[s, "A"])
    # the same strings where the generated text is post-processed: inside flattened types (object parts are
    # merged, a lone flattened field is unwrapped from its parentheses) and inlined types
    for kind, s in SIGMA:
        lit = rs(s)
        e1 = TypeDef("E1", "enum", variants=[Variant("A", "named", [Field("i32", "x", [f"#[ts(rename = {lit})]"])]), Variant("B", "unit", attrs=[f"#[ts(rename = {lit})]"])], derives=TS_ONLY, vals=False)
        e2 = TypeDef("E2", "enum", variants=[Variant("C", "tuple", [Field("i32")]), Variant("D", "unit")], derives=TS_ONLY, vals=False)
        inner = TypeDef("Inner", "struct", "named", [Field("E1", "e1", ["#[ts(flatten)]"]), Field("E2", "e2", ["#[ts(flatten)]"])], derives=TS_ONLY, vals=False)
        lone = TypeDef("X", "struct", "named", [Field("Inner", "i", ["#[ts(flatten)]"])], derives=TS_ONLY, vals=False)
        out.append(Case({"family": "string-content", "position": "inside-lone-flattened-two-enums", "string_kind": kind}, [e1, e2, inner, lone],
                        [f'ctx.c04_strings::<X>("X", &[{rs(s)}, "A", "C"], &[{rs(s)}, "D"]);']))
        withsib = TypeDef("X", "struct", "named", [Field("bool", "own"), Field("Inner", "i", ["#[ts(flatten)]"])], derives=TS_ONLY, vals=False)
        out.append(Case({"family": "string-content", "position": "inside-flattened-two-enums-with-sibling", "string_kind": kind}, [e1, e2, inner, withsib],
                        [f'ctx.c04_strings::<X>("X", &[{rs(s)}, "A", "C", "own"], &[{rs(s)}, "D"]);']))
        st = TypeDef("S1", "struct", "named", [Field("i32", "a", [f"#[ts(rename = {lit})]"]), Field("bool", "b")], derives=TS_ONLY, vals=False)
        st2 = TypeDef("S2", "struct", "named", [Field("i32", "c")], derives=TS_ONLY, vals=False)
        for pos, attrs2 in (("inside-flattened-struct", ["#[ts(flatten)]"]), ("inside-inlined-struct", ["#[ts(inline)]"])):
            outer = TypeDef("X", "struct", "named", [Field("S1", "s1", attrs2), Field("S2", "s2", attrs2), Field("bool", "own")], derives=TS_ONLY, vals=False)
            out.append(Case({"family": "string-content", "position": pos, "string_kind": kind}, [st, st2, outer],
                            [f'ctx.c04_strings::<X>("X", &[{rs(s)}, "b", "c", "own"], &[]);']))
        lone_st = TypeDef("X", "struct", "named", [Field("S1", "s1", ["#[ts(flatten)]"])], derives=TS_ONLY, vals=False)
        out.append(Case({"family": "string-content", "position": "inside-lone-flattened-struct", "string_kind": kind}, [st, lone_st],
                        [f'ctx.c04_strings::<X>("X", &[{rs(s)}, "b"], &[]);']))
    # rename_all producing non-identifier keys, with and without type overrides / optional / inline
    for rule, key in (("kebab-case", "multi-word"), ("SCREAMING-KEBAB-CASE", "MULTI-WORD")):
        td = TypeDef("X", "struct", "named", [Field("i32", "multi_word", ['#[ts(type = "number")]']), Field("Option<i32>", "other_one", ["#[ts(optional)]"]), Field("St", "third_one", ["#[ts(inline)]"])], attrs=[f'#[ts(rename_all = "{rule}")]'], derives=TS_ONLY, vals=False)
        out.append(Case({"family": "string-content", "position": "rename_all+type-override", "string_kind": rule}, [td],
                        [f'ctx.c04_strings::<X>("X", &[{rs(key)}], &[]);']))
    # type-level rename: valid TypeScript identifiers only (a type alias has no quoted form)
    for name in ("Zed", "_z", "$z", "Zé", "Z1", "日本"):
        td = TypeDef("X", "struct", "named", [Field("i32", "a")], attrs=[f"#[ts(rename = {rs(name)})]"], derives=TS_ONLY, vals=False)
        out.append(Case({"family": "string-content", "position": "type-rename", "string_kind": "identifier"}, [td],
                        [f'ctx.c04_strings::<X>("X", &["a"], &[]);', f'ctx.check_same_string("type-rename-not-used-as-name", &|| <X as TS>::name(), &|| {rs(name)}.to_string());'], decl_types=["X"]))
    return out
