"""C07 corpus: generic type definitions x type arguments."""
import itertools
from e2core import Case, Field, TypeDef, Variant, DERIVES_TS_ONLY

ARGS = ["i32", "String", "()", "Option<u64>", "Vec<St>", "St", "En", "Gp<St>", "Gp<Gp<i32>>"]
TS_ONLY = "#[derive(TS)]"


def q(s):
    import json
    return json.dumps(s)


def gcase(klass, td, params, nparams, arg_tuples, fixed_prefix="", fixed_suffix="", name="G", concrete_names=True):
    """params: expected TypeScript parameter list [(name, default|None)];
    nparams: number of Rust type parameters to supply; fixed_prefix/suffix: lifetime / const args."""
    def inst(args):
        inner = ", ".join(x for x in ([fixed_prefix] if fixed_prefix else []) + list(args) + ([fixed_suffix] if fixed_suffix else []))
        return f"{name}<{inner}>"
    body = []
    ps = ", ".join(f"({q(n)}, {('Some(' + q(d) + ')') if d else 'None'})" for n, d in params)
    first = inst(arg_tuples[0])
    body.append(f'ctx.check_generic_decl({q(name)}, &|| <{first} as TS>::decl(), &[{ps}]);')
    items = ", ".join(f'({q(inst(a))}.to_string(), <{inst(a)} as TS>::decl())' for a in arg_tuples)
    body.append(f'ctx.check_all_same("declaration-depends-on-type-arguments", &|| vec![{items}]);')
    for a in arg_tuples:
        t = inst(a)
        # a reference to an instantiation is the identifier applied to the arguments' names
        if concrete_names is True:
            shown = list(a)
        else:
            shown = [x for x, keep in zip(a, concrete_names) if keep]
        if shown:
            exp = 'format!("' + name.replace("r#", "") + '<' + ", ".join("{}" for _ in shown) + '>", ' + ", ".join(f"<{x} as TS>::name()" for x in shown) + ")"
        else:
            exp = q(name) + ".to_string()"
        body.append(f'ctx.check_same_string("instantiation-name-is-not-ident-applied-to-argument-names", &|| <{t} as TS>::name(), &|| {exp});')
        # expanding the generic declaration at the arguments == the instantiation's own concrete declaration
        body.append(f'ctx.check_equiv("instantiated-generic-declaration-differs-from-concrete-declaration", &|| <{t} as TS>::name(), &|| <{t} as TS>::inline());')
        body.append(f'ctx.check_same_string("decl_concrete-is-not-the-inline-form", &|| <{t} as TS>::decl_concrete(), &|| format!("type {{}} = {{}};", <{t} as TS>::ident(), <{t} as TS>::inline()));')
    c = Case(klass, [td], body, decl_types=[first])
    c.last_inst = inst(arg_tuples[-1])
    return c


def build(tier):
    out = build0(tier)
    # call-order twins: the same case with a concrete instantiation asked for its inline form, its concrete
    # declaration and its name BEFORE the generic declaration is asked for the first time (own copy of the
    # type definitions, hence own copies of whatever the expansion keeps between calls)
    twins = []
    for c in out:
        li = getattr(c, "last_inst", None)
        if li is None:
            continue
        t = Case({**c.klass, "order": "concrete-first"}, c.types, list(c.body), strings=c.strings, extra_items=c.extra_items, decl_types=c.decl_types,
                 warmup=[f"<{li} as TS>::inline()", f"<{li} as TS>::decl_concrete()", f"<{li} as TS>::name()"])
        twins.append(t)
    return out + twins


def build0(tier):
    quick = tier == "quick"
    out = []
    args1 = [(a,) for a in ARGS]
    uses = {
        "bare": [Field("T", "v")],
        "option": [Field("Option<T>", "v")],
        "vec": [Field("Vec<T>", "v")],
        "tuple": [Field("(T, i32)", "v")],
        "map-value": [Field("BTreeMap<String, T>", "v")],
        "generic-arg": [Field("Gp<T>", "v")],
        "nested-generic-arg": [Field("Gp<Vec<T>>", "v")],
        "inline-generic": [Field("Gp<T>", "v", ["#[ts(inline)]"])],
        "flatten-generic": [Field("i32", "own"), Field("Gp<T>", "v", ["#[ts(flatten)]"])],
        "inline-param": [Field("T", "v", ["#[ts(inline)]"])],
        "inline-container-of-param": [Field("Vec<T>", "v", ["#[ts(inline)]"])],
        "flatten-param": [Field("i32", "own"), Field("T", "v", ["#[ts(flatten)]"])],
        "lone-flatten-param": [Field("T", "v", ["#[ts(flatten)]"])],
        "lone-flatten-generic": [Field("Gp<T>", "v", ["#[ts(flatten)]"])],
        "two-flattened-params": [Field("T", "v", ["#[ts(flatten)]"]), Field("Gp<T>", "w", ["#[ts(flatten)]"])],
        "optional-param": [Field("Option<T>", "v", ["#[ts(optional)]"])],
        "twice": [Field("T", "a"), Field("Vec<T>", "b"), Field("Option<Box<T>>", "c")],
        "unused-with-phantom": [Field("std::marker::PhantomData<T>", "p"), Field("i32", "x")],
        "as-param": [Field("i32", "v", ['#[ts(as = "Vec<T>")]']), Field("std::marker::PhantomData<T>", "p", ["#[ts(skip)]"])],
    }
    for use, fields in uses.items():
        td = TypeDef("G", "struct", "named", fields, generics=["T"], derives=TS_ONLY, vals=False)
        a = args1
        if use in ("flatten-param", "lone-flatten-param", "two-flattened-params"):
            a = [("St",), ("Gp<St>",), ("Gp<Gp<i32>>",)]   # flattening needs an object
        if use == "two-flattened-params":
            a = [("St",), ("Ei",)]   # flattening T and Gp<T>: T's keys must differ from Gp's own
        out.append(gcase({"family": "generic-1", "use": use}, td, [("T", None)], 1, a))
    # tuple / newtype structs and enums
    out.append(gcase({"family": "generic-1", "use": "newtype"}, TypeDef("G", "struct", "tuple", [Field("T")], generics=["T"], derives=TS_ONLY, vals=False), [("T", None)], 1, args1))
    out.append(gcase({"family": "generic-1", "use": "tuple-struct"}, TypeDef("G", "struct", "tuple", [Field("T"), Field("Vec<T>")], generics=["T"], derives=TS_ONLY, vals=False), [("T", None)], 1, args1))
    for rp, attrs in (("external", []), ("internal", ['#[ts(tag = "t")]']), ("adjacent", ['#[ts(tag = "t", content = "c")]']), ("untagged", ["#[ts(untagged)]"])):
        vs = [Variant("A", "tuple", [Field("T")]), Variant("B", "named", [Field("T", "x"), Field("Option<T>", "o")]), Variant("C", "unit")]
        if rp != "internal":
            vs.append(Variant("D", "tuple", [Field("T"), Field("i32")]))
        td = TypeDef("G", "enum", variants=vs, attrs=attrs, generics=["T"], derives=TS_ONLY, vals=False)
        a = args1 if rp != "internal" else [("St",), ("Gp<St>",), ("Gp<Gp<i32>>",)]
        out.append(gcase({"family": "generic-1", "use": "enum", "repr": rp}, td, [("T", None)], 1, a))
    for rp, attrs in (("external", []), ("internal", ['#[ts(tag = "t")]']), ("adjacent", ['#[ts(tag = "t", content = "c")]']), ("untagged", ["#[ts(untagged)]"])):
        vs = [Variant("A", "named", [Field("Gp<T>", "v", ["#[ts(flatten)]"])]), Variant("B", "named", [Field("T", "x")]), Variant("C", "unit")]
        td = TypeDef("G", "enum", variants=vs, attrs=attrs, generics=["T"], derives=TS_ONLY, vals=False)
        out.append(gcase({"family": "generic-1", "use": "enum-variant-lone-flatten", "repr": rp}, td, [("T", None)], 1, args1))
    # defaults
    for dflt, ts in (("i32", "number"), ("St", "St"), ("Gp<St>", "Gp<St>"), ("Option<Vec<St>>", "Array<St> | null")):
        td = TypeDef("G", "struct", "named", [Field("T", "v"), Field("Vec<T>", "l")], generics=["T"], generics_decl=f"<T = {dflt}>", generics_use="<T>", derives=TS_ONLY, vals=False)
        out.append(gcase({"family": "generic-default", "default": dflt}, td, [("T", ts)], 1, args1))
    td = TypeDef("G", "struct", "named", [Field("T", "t"), Field("U", "u")], generics=["T", "U"], generics_decl="<T, U = T>", generics_use="<T, U>", derives=TS_ONLY, vals=False)
    pairs = list(itertools.product(ARGS if not quick else ARGS[:5], repeat=2))
    out.append(gcase({"family": "generic-default", "default": "other-parameter"}, td, [("T", None), ("U", "T")], 2, pairs))
    # two and three parameters
    td2 = TypeDef("G", "struct", "named", [Field("T", "first"), Field("BTreeMap<String, U>", "m"), Field("Gp<U>", "g"), Field("(T, U)", "both")], generics=["T", "U"], derives=TS_ONLY, vals=False)
    out.append(gcase({"family": "generic-2"}, td2, [("T", None), ("U", None)], 2, list(itertools.product(ARGS, repeat=2))))
    td2e = TypeDef("G", "enum", variants=[Variant("L", "tuple", [Field("T")]), Variant("R", "named", [Field("U", "u"), Field("Vec<T>", "ts")])], generics=["T", "U"], derives=TS_ONLY, vals=False)
    out.append(gcase({"family": "generic-2", "use": "enum"}, td2e, [("T", None), ("U", None)], 2, list(itertools.product(ARGS[:6], repeat=2))))
    td3 = TypeDef("G", "struct", "named", [Field("A", "a"), Field("Option<B>", "b"), Field("Gp<C>", "c", ["#[ts(inline)]"])], generics=["A", "B", "C"], derives=TS_ONLY, vals=False)
    cover3 = [(ARGS[i % 9], ARGS[(i * 2 + 1) % 9], ARGS[(i * 4 + 2) % 9]) for i in range(9)] + [("St", "St", "St"), ("i32", "i32", "i32")]
    out.append(gcase({"family": "generic-3"}, td3, [("A", None), ("B", None), ("C", None)], 3, cover3))
    # a second parameter that no emitted field mentions (skipped / overridden field, skipped variant): it stays
    # a parameter of the declaration, with its default, and an argument of every reference
    hidden = {
        "skip": [Field("T", "v"), Field("Option<U>", "h", ["#[ts(skip)]"])],
        "type-override": [Field("T", "v"), Field("Vec<U>", "h", ['#[ts(type = "string")]'])],
        "as": [Field("T", "v"), Field("Vec<U>", "h", ['#[ts(as = "i32")]'])],
        "first-hidden": [Field("Option<T>", "h", ["#[ts(skip)]"]), Field("U", "v")],
    }
    pairs6 = list(itertools.product(ARGS[:4], repeat=2))
    for how, fields in hidden.items():
        td = TypeDef("G", "struct", "named", fields, generics=["T", "U"], derives=TS_ONLY, vals=False)
        out.append(gcase({"family": "generic-hidden-parameter", "how": how}, td, [("T", None), ("U", None)], 2, pairs6))
        tdd = TypeDef("G", "struct", "named", fields, generics=["T", "U"], generics_decl="<T = i32, U = St>", generics_use="<T, U>", derives=TS_ONLY, vals=False)
        out.append(gcase({"family": "generic-hidden-parameter", "how": how, "with_default": True}, tdd, [("T", "number"), ("U", "St")], 2, pairs6))
    tde = TypeDef("G", "enum", variants=[Variant("A", "tuple", [Field("T")]), Variant("B", "tuple", [Field("U")], ["#[ts(skip)]"]), Variant("C", "unit")], generics=["T", "U"], derives=TS_ONLY, vals=False)
    out.append(gcase({"family": "generic-hidden-parameter", "how": "skipped-variant"}, tde, [("T", None), ("U", None)], 2, pairs6))
    # parameter names that collide with TypeScript built-ins or declared types
    tdn = TypeDef("G", "struct", "named", [Field("Array", "a"), Field("Vec<St2>", "b")], generics=["Array", "St2"], derives=TS_ONLY, vals=False)
    out.append(gcase({"family": "generic-param-names"}, tdn, [("Array", None), ("St2", None)], 2, [("i32", "St"), ("St", "En")]))
    # lifetimes and const parameters mixed in
    tdl = TypeDef("G", "struct", "named", [Field("&'a T", "r"), Field("[T; N]", "arr"), Field("Vec<T>", "l")], generics=["T"],
                  generics_decl="<'a, T, const N: usize>", generics_use="<'a, T, N>", derives=TS_ONLY, vals=False)
    out.append(gcase({"family": "generic-lifetime-const"}, tdl, [("T", None)], 1, args1, fixed_prefix="'static", fixed_suffix="2"))
    tdl2 = TypeDef("G", "struct", "named", [Field("T", "t"), Field("&'b str", "s"), Field("U", "u")], generics=["T", "U"],
                   generics_decl="<T, 'b, U>" if False else "<'b, T, U>", generics_use="<'b, T, U>", derives=TS_ONLY, vals=False)
    out.append(gcase({"family": "generic-lifetime-const", "use": "two"}, tdl2, [("T", None), ("U", None)], 2, list(itertools.product(ARGS[:4], repeat=2)), fixed_prefix="'static"))
    # bounds and where clauses
    tdb = TypeDef("G", "struct", "named", [Field("T", "t"), Field("Vec<T>", "l")], generics=["T"], generics_decl="<T: Clone + std::fmt::Debug>", generics_use="<T>",
                  where="where T: PartialEq", derives=TS_ONLY, vals=False)
    out.append(gcase({"family": "generic-bounds"}, tdb, [("T", None)], 1, [(a,) for a in ARGS]))
    # concrete(..): every case below once as a struct and once as an enum (container attributes of the two
    # item kinds are parsed and merged by different code)
    n_before_concrete = len(out)
    # concrete(..) on each subset of two parameters
    for conc, params, keep in ((["T"], [("U", None)], (False, True)), (["U"], [("T", None)], (True, False)), (["T", "U"], [], (False, False))):
        cattr = "#[ts(concrete(" + ", ".join((c + " = " + ("i32" if c == "T" else "St")) for c in conc) + "))]"
        td = TypeDef("G", "struct", "named", [Field("T", "t"), Field("Vec<U>", "u")], attrs=[cattr], generics=["T", "U"], derives=TS_ONLY, vals=False)
        # concretised parameters must be supplied with the concrete type
        tuples = [(("i32" if "T" in conc else a), ("St" if "U" in conc else b)) for a, b in itertools.product(ARGS[:5], repeat=2)]
        tuples = sorted(set(tuples))
        out.append(gcase({"family": "generic-concrete", "concrete": conc}, td, params, 2, tuples, concrete_names=keep))
    # concrete(..) split over two attributes
    td = TypeDef("G", "struct", "named", [Field("T", "t"), Field("Vec<U>", "u")], attrs=["#[ts(concrete(T = i32))]", "#[ts(concrete(U = St))]"], generics=["T", "U"], derives=TS_ONLY, vals=False)
    out.append(gcase({"family": "generic-concrete", "concrete": ["T", "U"], "split": True}, td, [], 2, [("i32", "St")], concrete_names=(False, False)))
    td = TypeDef("G", "struct", "named", [Field("T", "t"), Field("Vec<U>", "u"), Field("Option<V>", "v")], attrs=["#[ts(concrete(T = i32))]", "#[ts(concrete(V = St))]"], generics=["T", "U", "V"], derives=TS_ONLY, vals=False)
    out.append(gcase({"family": "generic-concrete", "concrete": ["T", "V"], "split": True}, td, [("U", None)], 3, [("i32", a, "St") for a in ARGS[:6]], concrete_names=(False, True, False)))
    # a parameter that has a default AND is concretised
    td = TypeDef("G", "struct", "named", [Field("T", "t"), Field("Vec<T>", "l")], attrs=["#[ts(concrete(T = i32))]"], generics=["T"], generics_decl="<T = String>", generics_use="<T>", derives=TS_ONLY, vals=False)
    out.append(gcase({"family": "generic-concrete", "concrete": ["T"], "with_default": True}, td, [], 1, [("i32",)], concrete_names=(False,)))
    td = TypeDef("G", "struct", "named", [Field("T", "t"), Field("U", "u"), Field("V", "v")], attrs=["#[ts(concrete(U = St))]"], generics=["T", "U", "V"], generics_decl="<T, U = String, V = i32>", generics_use="<T, U, V>", derives=TS_ONLY, vals=False)
    out.append(gcase({"family": "generic-concrete", "concrete": ["U"], "with_default": True}, td, [("T", None), ("V", "number")], 3, [(a, "St", b) for a in ARGS[:4] for b in ARGS[:3]], concrete_names=(True, False, True)))
    for c in list(out[n_before_concrete:]):
        td = c.types[0]
        etd = TypeDef("G", "enum", variants=[Variant("A", "named", list(td.fields)), Variant("B", "unit")], attrs=list(td.attrs),
                      generics=list(td.generics), generics_decl=td.generics_decl, generics_use=td.generics_use, where=td.where,
                      derives=td.derives, vals=False)
        out.append(Case({**c.klass, "item": "enum"}, [etd], list(c.body), strings=c.strings, extra_items=c.extra_items, decl_types=c.decl_types))
    # associated types of a concretised parameter: the binding is the one of the item with the concrete
    # types written out (and the expansion has to state the bounds that makes compile)
    drv = "pub trait Driver { type Info; }\npub struct TsDriver;\nimpl Driver for TsDriver { type Info = St; }"
    amenu = [("assoc", "D::Info", []), ("option-assoc", "Option<D::Info>", []), ("optional-assoc", "Option<D::Info>", ["#[ts(optional)]"]),
             ("optional-nullable-assoc", "Option<D::Info>", ["#[ts(optional = nullable)]"]), ("vec-assoc", "Vec<D::Info>", []),
             ("option-vec-assoc", "Option<Vec<D::Info>>", ["#[ts(optional)]"])]
    for lbl, fty, fattr in amenu:
        for clbl, cattr in (("plain", []), ("optional_fields", ["#[ts(optional_fields)]"]), ("optional_fields-nullable", ["#[ts(optional_fields = nullable)]"])):
            if cattr and fattr:
                continue
            for item in ("struct", "enum"):
                def mk(name, ty, generic):
                    fields = [Field("u32", "id"), Field(ty, "info", list(fattr))]
                    attrs = list(cattr) + (["#[ts(concrete(D = TsDriver))]"] if generic else ['#[ts(rename = "G")]'])
                    kw = dict(generics=["D"], generics_decl="<D: Driver>", generics_use="<D>") if generic else {}
                    if item == "struct":
                        return TypeDef(name, "struct", "named", fields, attrs=attrs, derives=TS_ONLY, vals=False, **kw)
                    if cattr:
                        return None
                    return TypeDef(name, "enum", variants=[Variant("A", "named", fields), Variant("B", "unit")], attrs=attrs, derives=TS_ONLY, vals=False, **kw)
                g, c = mk("G", fty, True), mk("Gc", fty.replace("D::Info", "St"), False)
                if g is None:
                    continue
                out.append(Case({"family": "generic-concrete-associated-type", "field": lbl, "container": clbl, "item": item}, [g, c],
                                ['ctx.check_same_string("concrete-parameter-differs-from-writing-the-type-out", &|| <G<TsDriver> as TS>::decl(), &|| <Gc as TS>::decl());',
                                 'ctx.check_same_string("concrete-parameter-differs-from-writing-the-type-out", &|| <G<TsDriver> as TS>::inline(), &|| <Gc as TS>::inline());'],
                                extra_items=drv, decl_types=["G<TsDriver>"]))
    # const parameters before / between type parameters
    tdo = TypeDef("G", "struct", "named", [Field("[T; N]", "arr"), Field("T", "t")], generics=["T"], generics_decl="<const N: usize, T>", generics_use="<N, T>", derives=TS_ONLY, vals=False)
    out.append(gcase({"family": "generic-const-order", "order": "const-first"}, tdo, [("T", None)], 1, [(a,) for a in ARGS[:6]], fixed_prefix="2"))
    tdo2 = TypeDef("G", "enum", variants=[Variant("A", "tuple", [Field("[T; N]")]), Variant("B", "named", [Field("U", "u"), Field("&'a str", "s")])], generics=["T", "U"], generics_decl="<'a, T, const N: usize, U>", generics_use="<'a, T, N, U>", derives=TS_ONLY, vals=False)
    body = []
    out.append(Case({"family": "generic-const-order", "order": "const-between"}, [tdo2],
                    ['ctx.check_generic_decl("G", &|| <G<\'static, i32, 2, St> as TS>::decl(), &[("T", None), ("U", None)]);',
                     'ctx.check_all_same("declaration-depends-on-type-arguments", &|| vec![("a".to_string(), <G<\'static, i32, 2, St> as TS>::decl()), ("b".to_string(), <G<\'static, St, 2, En> as TS>::decl())]);',
                     'ctx.check_same_string("instantiation-name-is-not-ident-applied-to-argument-names", &|| <G<\'static, i32, 2, St> as TS>::name(), &|| "G<number, St>".to_string());',
                     'ctx.check_equiv("instantiated-generic-declaration-differs-from-concrete-declaration", &|| <G<\'static, i32, 2, St> as TS>::name(), &|| <G<\'static, i32, 2, St> as TS>::inline());'],
                    decl_types=["G<'static, i32, 2, St>"]))
    # const parameters with a default, lifetimes with bounds
    tdc = TypeDef("G", "struct", "named", [Field("[T; N]", "arr"), Field("T", "t")], generics=["T"], generics_decl="<T, const N: usize = 2>", generics_use="<T, N>", derives=TS_ONLY, vals=False)
    out.append(gcase({"family": "generic-const-default"}, tdc, [("T", None)], 1, [(a,) for a in ARGS[:6]], fixed_suffix="3"))
    tdc2 = TypeDef("G", "struct", "named", [Field("[i32; N]", "arr")], generics=[], generics_decl="<const N: usize = 4>", generics_use="<N>", derives=TS_ONLY, vals=False)
    out.append(Case({"family": "generic-const-default", "use": "only-const"}, [tdc2], ['ctx.check_same_string("const-default", &|| <G as TS>::name(), &|| "G".to_string());', 'ctx.check_same_string("const-default", &|| <G<4> as TS>::decl(), &|| <G<1> as TS>::decl().replace("[number]", "[number, number, number, number]"));'], decl_types=["G<4>"]))
    tdl3 = TypeDef("G", "struct", "named", [Field("&'a T", "r"), Field("std::borrow::Cow<'b, str>", "c")], generics=["T"], generics_decl="<'a, 'b: 'a, T: 'a>", generics_use="<'a, 'b, T>", derives=TS_ONLY, vals=False)
    out.append(gcase({"family": "generic-lifetime-const", "use": "lifetime-bounds"}, tdl3, [("T", None)], 1, [(a,) for a in ARGS[:5]], fixed_prefix="'static, 'static"))
    tdbd = TypeDef("G", "struct", "named", [Field("T", "t")], attrs=['#[ts(bound = "T: TS")]'], generics=["T"], derives=TS_ONLY, vals=False)
    out.append(gcase({"family": "generic-bounds", "use": "ts-bound-attr"}, tdbd, [("T", None)], 1, [(a,) for a in ARGS[:5]]))
    return out
