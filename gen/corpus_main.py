"""Main E2 corpus: struct / enum definitions in the supported fragment (C01, C02, C03a, C04(i))."""
from e2core import Case, Field, TypeDef, Variant

# field-type menu: (type, flags)
PHI = [
    ("i32", "prim"), ("u64", "prim"), ("f64", "prim"), ("String", "prim"), ("bool", "prim"), ("char", "char prim"), ("()", "prim"),
    ("Option<i32>", "opt prim"), ("Option<St>", "opt inl"), ("Vec<St>", "inl"), ("[i32; 2]", "prim"), ("(i32, St)", ""),
    ("BTreeMap<String, Ue>", "inl"), ("HashMap<Ue, i32>", ""), ("Box<St>", "inl"),
    ("St", "obj inl"), ("En", "inl flat"), ("Ue", "inl"), ("Nt", "inl"), ("Tu", "inl"),
    ("Gp<St>", "obj inl"), ("Gp<Option<En>>", "obj inl"),
    ("Ei", "inl flat nodefault"), ("Ea", "inl flat nodefault"), ("Eu", "inl flat nodefault"),
]
RULES = ["lowercase", "UPPERCASE", "camelCase", "snake_case", "PascalCase", "SCREAMING_SNAKE_CASE", "kebab-case", "SCREAMING-KEBAB-CASE"]
REPRS = {
    "external": [],
    "internal": ['#[serde(tag = "t")]'],
    "adjacent": ['#[serde(tag = "t", content = "c")]'],
    "untagged": ["#[serde(untagged)]"],
}


def payload_kind(ty):
    """How serde serializes the type: what an internally tagged newtype variant can carry."""
    if ty in ("St", "Gp<St>", "Gp<Option<En>>", "Box<St>", "Ei", "Ea"):
        return "object"
    if "Map<" in ty:
        return "map"
    if ty in ("En", "Ue", "Eu"):
        return "enum-not-always-object"
    if ty == "()":
        return "unit"
    if ty.startswith("Option<"):
        return "option"
    return "non-object"


def flags(ty):
    for t, f in PHI:
        if t == ty:
            return f.split()
    return []


def strings_for(types):
    """`char` fields only accept one-character strings (the property restricts witnesses so)."""
    return ["a", "b"] if any("char" in t for t in types) else None


def check(name):
    return [f'ctx.check_type::<{name}>("{name}");']


def one(klass, td, extra_types=(), tys=()):
    return Case(klass=klass, types=list(extra_types) + [td], body=check(td.name + ("" if not td.generics else "")),
                strings=strings_for(list(tys) + [f.ty for f in td.fields] + [f.ty for v in td.variants for f in v.fields]))


def fam_struct_shapes(quick):
    out = []
    for cattr, cname in (([], "none"), (['#[serde(rename = "Zed")]'], "rename")):
        out.append(one({"family": "struct-shape", "shape": "unit", "container": cname}, TypeDef("X", "struct", "unit", attrs=cattr)))
        out.append(one({"family": "struct-shape", "shape": "tuple0", "container": cname}, TypeDef("X", "struct", "tuple", attrs=cattr)))
        out.append(one({"family": "struct-shape", "shape": "named0", "container": cname}, TypeDef("X", "struct", "named", attrs=cattr)))
    for ty, _ in PHI:
        out.append(one({"family": "struct-shape", "shape": "newtype", "field_type": ty}, TypeDef("X", "struct", "tuple", [Field(ty)])))
        out.append(one({"family": "struct-shape", "shape": "tuple2", "field_type": ty}, TypeDef("X", "struct", "tuple", [Field(ty), Field("i32")])))
        out.append(one({"family": "struct-shape", "shape": "tuple2b", "field_type": ty}, TypeDef("X", "struct", "tuple", [Field("String"), Field(ty)])))
        for cattr, cname in (([], "none"), (['#[serde(rename = "Zed")]'], "rename"), (['#[serde(tag = "type")]'], "tag")):
            if quick and cname != "none" and ty not in ("i32", "St", "Option<St>", "En"):
                continue
            out.append(one({"family": "struct-shape", "shape": "named1", "field_type": ty, "container": cname},
                           TypeDef("X", "struct", "named", [Field(ty, "the_field")], attrs=cattr)))
    # attributes on tuple-struct fields
    for lbl, attr, ty, skipped in (("skip", ["#[serde(skip)]"], "i32", True), ("inline", ["#[ts(inline)]"], "St", False),
                                   ("as-same", ['#[ts(as = "Vec<St>")]'], "Vec<St>", False), ("type-override", ['#[ts(type = "number")]'], "i32", False)):
        out.append(one({"family": "tuple-field-attr", "shape": "newtype", "field_attr": lbl},
                       TypeDef("X", "struct", "tuple", [Field(ty, None, list(attr), skipped)])))
        out.append(one({"family": "tuple-field-attr", "shape": "tuple2-first", "field_attr": lbl},
                       TypeDef("X", "struct", "tuple", [Field(ty, None, list(attr), skipped), Field("String")])))
        out.append(one({"family": "tuple-field-attr", "shape": "tuple2-second", "field_attr": lbl},
                       TypeDef("X", "struct", "tuple", [Field("String"), Field(ty, None, list(attr), skipped)])))
        out.append(one({"family": "tuple-field-attr", "shape": "tuple3-middle", "field_attr": lbl},
                       TypeDef("X", "struct", "tuple", [Field("bool"), Field(ty, None, list(attr), skipped), Field("String")])))
    # consistent type overrides on named fields / containers
    out.append(one({"family": "type-override", "position": "field"},
                   TypeDef("X", "struct", "named", [Field("i32", "a", ['#[ts(type = "number")]']), Field("Vec<String>", "b", ['#[ts(type = "Array<string>")]'])])))
    out.append(one({"family": "type-override", "position": "container"},
                   TypeDef("X", "struct", "named", [Field("i32", "a")], attrs=['#[ts(type = "{ a: number }")]'])))
    out.append(one({"family": "type-override", "position": "container-as"},
                   TypeDef("X", "struct", "named", [Field("i32", "a"), Field("String", "b_c")], attrs=['#[ts(as = "St")]'])))
    for ty in ("St", "Option<i32>", "Vec<St>", "En"):
        out.append(one({"family": "struct-shape", "shape": "tuple3", "field_type": ty},
                       TypeDef("X", "struct", "tuple", [Field("i32"), Field(ty), Field("bool")])))
    return out


# field attribute options: (label, attrs, applicable(flags)->bool, skipped)
# what `#[ts(type = "..")]` has to say for the override to describe the field's real type
TS_OF = {"i32": "number", "u64": "bigint", "f64": "number", "String": "string", "bool": "boolean", "char": "string", "()": "null",
         "Option<i32>": "number | null", "[i32; 2]": "[number, number]"}


def field_opts():
    return [
        ("none", [], lambda f: True, False),
        ("rename-dash", ['#[serde(rename = "x-y")]'], lambda f: True, False),
        ("rename-digit", ['#[serde(rename = "1a")]'], lambda f: True, False),
        ("rename-space", ['#[serde(rename = "with space")]'], lambda f: True, False),
        ("rename-quote-backslash", ['#[serde(rename = "we\\"ird\\\\ one")]'], lambda f: True, False),
        ("skip", ["#[serde(skip)]"], lambda f: "nodefault" not in f, True),
        ("inline", ["#[ts(inline)]"], lambda f: "inl" in f, False),
        ("flatten", ["#[serde(flatten)]"], lambda f: "obj" in f or "flat" in f, False),
        ("optional", ['#[ts(optional)]', '#[serde(skip_serializing_if = "Option::is_none", default)]'], lambda f: "opt" in f, False),
        ("optional-nullable", ["#[ts(optional = nullable)]", "#[serde(default)]"], lambda f: "opt" in f, False),
        ("as-same", None, lambda f: True, False),
        ("type-same", None, lambda f: "prim" in f, False),
        ("default", ["#[serde(default)]"], lambda f: "nodefault" not in f, False),
    ]


REP_TYPE = {"rename-quote-backslash": "i32", "none": "i32", "rename-dash": "String", "rename-digit": "bool", "rename-space": "i32", "skip": "St",
            "inline": "St", "flatten": "St", "optional": "Option<St>", "optional-nullable": "Option<i32>",
            "as-same": "Vec<St>", "type-same": "u64", "default": "i32"}


def mk_field(name, ty, opt):
    label, attrs, _, skipped = opt
    if label == "as-same":
        attrs = [f'#[ts(as = "{ty}")]']
    if label == "type-same":
        attrs = [f'#[ts(type = "{TS_OF[ty]}")]']
    return Field(ty, name, list(attrs), skipped)


def fam_named_fields(quick):
    out = []
    opts = field_opts()
    # single attribute x every applicable type
    for opt in opts:
        for ty, fl in PHI:
            if not opt[2](fl.split()):
                continue
            td = TypeDef("X", "struct", "named", [Field("i32", "before"), mk_field("target", ty, opt), Field("String", "after")])
            out.append(one({"family": "named-field", "attrs": [opt[0]], "field_type": ty}, td))
            td1 = TypeDef("X", "struct", "named", [mk_field("target", ty, opt)])
            out.append(one({"family": "named-field-alone", "attrs": [opt[0]], "field_type": ty}, td1))
    # pairs of attributes on two fields (representative types); a second flattened type differs
    for a in opts:
        for b in opts:
            ta, tb = REP_TYPE[a[0]], REP_TYPE[b[0]]
            if a[0] == "flatten" and b[0] == "flatten":
                tb = "Gp<St>"
            td = TypeDef("X", "struct", "named", [mk_field("first", ta, a), mk_field("second", tb, b)])
            out.append(one({"family": "named-field-pair", "attrs": sorted({a[0], b[0]})}, td))
    # thorough: all ordered triples of attributes on three fields (3-way interactions)
    if not quick:
        for a in opts:
            for b in opts:
                for c in opts:
                    labels = [a[0], b[0], c[0]]
                    if labels.count("flatten") > 1 and len(set(labels)) < 3 and labels.count("flatten") == 3:
                        continue
                    ta, tb, tc = REP_TYPE[a[0]], REP_TYPE[b[0]], REP_TYPE[c[0]]
                    # flattened types must not share property names
                    fl = [i for i, l in enumerate(labels) if l == "flatten"]
                    tys = [ta, tb, tc]
                    alt = ["St", "Gp<i32>", "Ei"]
                    for n, i in enumerate(fl):
                        tys[i] = alt[n]
                    td = TypeDef("X", "struct", "named", [mk_field("first", tys[0], a), mk_field("second", tys[1], b), mk_field("third", tys[2], c)])
                    out.append(one({"family": "named-field-triple", "attrs": sorted(set(labels))}, td))
    # flatten of enums in every representation, alone and with siblings
    for ty in ("En", "Ei", "Ea", "Eu", "St", "Gp<St>"):
        for sib in (0, 1, 2):
            fs = [Field("i32", f"sib{i}") for i in range(sib)] + [Field(ty, "fl", ["#[serde(flatten)]"])]
            out.append(one({"family": "flatten", "flattened": ty, "siblings": sib}, TypeDef("X", "struct", "named", fs)))
    # flatten of enums with a single variant (the union has one arm: nothing left to parenthesise) whose
    # payload may itself be a union
    for rp, rattr in REPRS.items():
        for plabel, variant in (("struct-variant", lambda: Variant("Only", "named", [Field("i32", "a")])),
                                ("newtype-struct", lambda: Variant("Only", "tuple", [Field("St")])),
                                ("newtype-enum-inline", lambda: Variant("Only", "tuple", [Field("Ei", None, ["#[ts(inline)]"])])),
                                ("newtype-enum", lambda: Variant("Only", "tuple", [Field("Ei")]))):
            for sib in (0, 1):
                one_td = TypeDef("One", "enum", variants=[variant()], attrs=list(rattr))
                fs = [Field("i32", f"sib{i}") for i in range(sib)] + [Field("One", "fl", ["#[serde(flatten)]"])]
                out.append(Case({"family": "flatten-single-variant-enum", "repr": rp, "payload": plabel, "siblings": sib},
                                [one_td, TypeDef("X", "struct", "named", fs)], check("X") + check("One")))
    # nested flatten / inline
    inner = TypeDef("Inner", "struct", "named", [Field("i32", "deep"), Field("St", "st", ["#[serde(flatten)]"])])
    inner_inl = TypeDef("Inner", "struct", "named", [Field("i32", "deep"), Field("St", "st", ["#[ts(inline)]"])])
    for (lbl, inn) in (("flatten-in", inner), ("inline-in", inner_inl)):
        for (olbl, oattr) in (("flatten", ["#[serde(flatten)]"]), ("inline", ["#[ts(inline)]"]), ("name", [])):
            td = TypeDef("X", "struct", "named", [Field("bool", "top"), Field("Inner", "inner", oattr)])
            out.append(Case({"family": "nested-presentation", "inner": lbl, "outer": olbl}, [inn, td], check("X") + check("Inner")))
    # rename_all x a struct mixing plain, renamed, flattened, inlined, skipped and optional fields
    for rule in RULES + [None]:
        for tag in (None, "type", "tag_Key"):
            attrs = []
            if rule:
                attrs.append(f'#[serde(rename_all = "{rule}")]')
            if tag:
                attrs.append(f'#[serde(tag = "{tag}")]')
            td = TypeDef("X", "struct", "named", [
                Field("i32", "foo_bar"),
                Field("String", "x_y", ['#[serde(rename = "kept-as-is")]']),
                Field("St", "flat_st", ["#[serde(flatten)]"]),
                Field("St", "inl_st", ["#[ts(inline)]"]),
                Field("i32", "gone_field", ["#[serde(skip)]"], True),
                Field("Option<bool>", "maybe_so", ["#[ts(optional)]", '#[serde(skip_serializing_if = "Option::is_none", default)]']),
                Field("Vec<En>", "list_of"),
                Field("u64", "type_over_ride", ['#[ts(type = "bigint")]']),
                Field("Vec<St>", "as_it_is", ['#[ts(as = "Vec<St>")]']),
            ], attrs=attrs)
            out.append(one({"family": "rename-all-struct", "rule": rule or "none", "tag": bool(tag)}, td))
    # optional_fields
    for lbl, cattr, fattr in (("optional_fields", "#[ts(optional_fields)]", '#[serde(skip_serializing_if = "Option::is_none", default)]'),
                              ("optional_fields-nullable", "#[ts(optional_fields = nullable)]", "#[serde(default)]")):
        td = TypeDef("X", "struct", "named", [
            Field("Option<i32>", "a", [fattr]), Field("i32", "b"), Field("Option<St>", "c", [fattr]),
            Field("Option<Option<i32>>", "d", [fattr]) if False else Field("Vec<Option<i32>>", "d"),
            # not an Option (serde writes null for None, always): transparent wrappers around one
            Field("Box<Option<i32>>", "e"), Field("Box<Option<St>>", "f"), Field("Box<Box<Option<bool>>>", "g"), Field("Option<Box<Option<i32>>>", "h", [fattr]),
        ], attrs=[cattr])
        out.append(one({"family": "optional-fields", "mode": lbl}, td))
    return out


def fam_multi_flatten(quick):
    """Several flattened fields in one struct, flattened / inlined / named again one and two levels up."""
    out = []
    inners = {
        "enum+struct": [Field("En", "e", ["#[serde(flatten)]"]), Field("St", "s", ["#[serde(flatten)]"])],
        "struct+enum": [Field("St", "s", ["#[serde(flatten)]"]), Field("En", "e", ["#[serde(flatten)]"])],
        "enum+enum": [Field("Ei", "e", ["#[serde(flatten)]"]), Field("Ea", "f", ["#[serde(flatten)]"])],
        "own+enum+struct": [Field("i32", "own"), Field("En", "e", ["#[serde(flatten)]"]), Field("St", "s", ["#[serde(flatten)]"])],
        "enum-only": [Field("Ei", "e", ["#[serde(flatten)]"])],
        "struct+generic": [Field("St", "a", ["#[serde(flatten)]"]), Field("Gp<i32>", "g", ["#[serde(flatten)]"])],
        "enum+struct+enum": [Field("Ei", "e", ["#[serde(flatten)]"]), Field("St", "s", ["#[serde(flatten)]"]), Field("Ea", "f", ["#[serde(flatten)]"])],
        "enum+generic+enum": [Field("Ea", "f", ["#[serde(flatten)]"]), Field("Gp<i32>", "g", ["#[serde(flatten)]"]), Field("Ei", "e", ["#[serde(flatten)]"])],
        "struct+enum+struct": [Field("St", "s", ["#[serde(flatten)]"]), Field("Ei", "e", ["#[serde(flatten)]"]), Field("Gp<i32>", "g", ["#[serde(flatten)]"])],
        "enum+enum+struct": [Field("Ei", "e", ["#[serde(flatten)]"]), Field("Ea", "f", ["#[serde(flatten)]"]), Field("St", "s", ["#[serde(flatten)]"])],
    }
    for lbl, fields in inners.items():
        inner = TypeDef("Inner", "struct", "named", fields)
        o_flat = TypeDef("OFlat", "struct", "named", [Field("Inner", "inner", ["#[serde(flatten)]"])])
        o_sib = TypeDef("OSib", "struct", "named", [Field("bool", "x"), Field("Inner", "inner", ["#[serde(flatten)]"])])
        o_name = TypeDef("OName", "struct", "named", [Field("Inner", "inner")])
        o_inl = TypeDef("OInl", "struct", "named", [Field("bool", "x"), Field("Inner", "inner", ["#[ts(inline)]"])])
        oo = TypeDef("OO", "struct", "named", [Field("OFlat", "o", ["#[serde(flatten)]"])])
        oo2 = TypeDef("OO2", "struct", "named", [Field("String", "y"), Field("OFlat", "o", ["#[serde(flatten)]"]), Field("St", "t", ["#[serde(flatten)]"])])
        en = TypeDef("EV", "enum", variants=[Variant("A", "named", [Field("Inner", "inner", ["#[serde(flatten)]"])]), Variant("B", "tuple", [Field("Inner")])], attrs=['#[serde(tag = "t")]'])
        body = []
        for n in ("Inner", "OFlat", "OSib", "OName", "OInl", "OO", "OO2", "EV"):
            body += check(n)
        out.append(Case({"family": "multi-flatten", "inner": lbl}, [inner, o_flat, o_sib, o_name, o_inl, oo, oo2, en], body))
    return out


def fam_field_combos(quick):
    """Several attributes on the SAME field."""
    out = []
    ssi = '#[serde(skip_serializing_if = "Option::is_none", default)]'
    combos = [
        ("optional+inline", "Option<St>", ["#[ts(optional, inline)]", ssi]),
        ("optional-nullable+inline", "Option<St>", ["#[ts(optional = nullable, inline)]", "#[serde(default)]"]),
        ("optional+inline-enum", "Option<Ei>", ["#[ts(optional, inline)]", ssi]),
        ("optional+inline-generic", "Option<Gp<St>>", ["#[ts(optional, inline)]", ssi]),
        ("optional+rename", "Option<i32>", ["#[ts(optional)]", '#[serde(rename = "re-named", skip_serializing_if = "Option::is_none", default)]']),
        ("optional+as", "Option<i32>", ['#[ts(optional, as = "Option<i32>")]', ssi]),
        ("inline+rename", "St", ["#[ts(inline)]", '#[serde(rename = "re-named")]']),
        ("inline+as", "St", ['#[ts(inline, as = "St")]']),
        ("inline+default", "Vec<St>", ["#[ts(inline)]", "#[serde(default)]"]),
        ("rename+default", "i32", ['#[serde(rename = "x y", default)]']),
        ("inline-vec-of-option", "Vec<Option<St>>", ["#[ts(inline)]"]),
        ("inline-map", "BTreeMap<String, St>", ["#[ts(inline)]"]),
    ]
    for lbl, ty, attrs in combos:
        for cattr, cl in (([], "plain"), (['#[serde(rename_all = "camelCase")]'], "rename_all"), (['#[serde(tag = "type")]'], "tag")):
            td = TypeDef("X", "struct", "named", [Field("i32", "before_it"), Field(ty, "the_target", list(attrs)), Field("bool", "after_it")], attrs=cattr)
            out.append(one({"family": "field-combo", "combo": lbl, "container": cl}, td))
        ev = TypeDef("E", "enum", variants=[Variant("V", "named", [Field(ty, "the_target", list(attrs)), Field("bool", "z")]), Variant("U", "unit")], attrs=['#[serde(tag = "t", content = "c")]'])
        out.append(one({"family": "field-combo", "combo": lbl, "container": "adjacent-variant"}, ev))
    for mode, fattr in (("#[ts(optional_fields)]", ssi), ("#[ts(optional_fields = nullable)]", "#[serde(default)]")):
        td = TypeDef("X", "struct", "named", [Field("Option<St>", "a", ["#[ts(inline)]", fattr]), Field("Option<Vec<St>>", "b", ["#[ts(inline)]", fattr]), Field("St", "c", ["#[ts(inline)]"]), Field("Option<i32>", "d", [fattr, '#[serde(rename = "dee")]'])], attrs=[mode])
        out.append(one({"family": "field-combo", "combo": "optional_fields+inline", "container": mode}, td))
    return out


def variant_shapes(ty="St"):
    return {
        "unit": lambda n: Variant(n, "unit"),
        "tuple0": lambda n: Variant(n, "tuple"),
        "named0": lambda n: Variant(n, "named"),
        "newtype": lambda n: Variant(n, "tuple", [Field(ty)]),
        "tuple2": lambda n: Variant(n, "tuple", [Field("i32"), Field("String")]),
        "struct1": lambda n: Variant(n, "named", [Field(ty, "a")]),
        "struct2": lambda n: Variant(n, "named", [Field("i32", "a_b"), Field("String", "c")]),
    }


def allowed(repr_, shape):
    # serde rejects tuple variants (also the empty one) in internally tagged enums at compile time
    return not (repr_ == "internal" and shape in ("tuple0", "tuple2"))


def fam_enums(quick):
    out = []
    shapes = variant_shapes()
    names = {"unit": "UnitV", "tuple0": "EmptyTup", "named0": "EmptyObj", "newtype": "NewV", "tuple2": "TupV", "struct1": "OneField", "struct2": "TwoFields"}
    for rp, rattr in REPRS.items():
        # all shapes packed
        vs = [shapes[s](names[s]) for s in shapes if allowed(rp, s)]
        out.append(one({"family": "enum-packed", "repr": rp}, TypeDef("E", "enum", variants=vs, attrs=list(rattr))))
        # one variant
        for s in shapes:
            if allowed(rp, s):
                out.append(one({"family": "enum-single", "repr": rp, "shape": s}, TypeDef("E", "enum", variants=[shapes[s]("Only")], attrs=list(rattr))))
        # two variants: position effects
        ss = ["unit", "newtype", "struct2", "named0", "tuple2"] if quick else list(shapes)
        for a in ss:
            for b in ss:
                if allowed(rp, a) and allowed(rp, b) and not (quick and a == b):
                    out.append(one({"family": "enum-pair", "repr": rp, "shapes": [a, b]},
                                   TypeDef("E", "enum", variants=[shapes[a]("First"), shapes[b]("Second")], attrs=list(rattr))))
        # payload types of newtype / struct variants
        for ty, fl in PHI:
            if quick and ty in ("u64", "f64", "bool", "Tu", "Nt", "Gp<Option<En>>", "[i32; 2]"):
                continue
            sh = variant_shapes(ty)
            vs = [sh["newtype"]("NewV"), sh["struct1"]("OneField"), Variant("UnitV", "unit")]
            out.append(one({"family": "enum-payload", "repr": rp, "payload": ty, "payload_kind": payload_kind(ty)},
                           TypeDef("E", "enum", variants=vs, attrs=list(rattr)), tys=[ty]))
        # variant attributes
        for vlabel, vattr, skipped in (("rename", ['#[serde(rename = "re-named")]'], False), ("rename-quote-backslash", ['#[serde(rename = "we\\"ird\\\\ one")]'], False), ("skip", ["#[serde(skip)]"], True),
                                       ("rename_all", ['#[serde(rename_all = "camelCase")]'], False), ("untagged", ["#[serde(untagged)]"], False)):
            for s in ("unit", "newtype", "tuple2", "struct2", "named0"):
                if not allowed(rp, s) or (vlabel == "rename_all" and s != "struct2"):
                    continue
                if vlabel == "untagged" and rp == "untagged":
                    continue
                target = shapes[s]("Target")
                target.attrs = list(vattr)
                target.skipped = skipped
                vs = [Variant("UnitV", "unit"), shapes["struct2"]("TwoFields"), target]
                out.append(one({"family": "enum-variant-attr", "repr": rp, "shape": s, "variant_attr": vlabel},
                               TypeDef("E", "enum", variants=vs, attrs=list(rattr))))
        # variant-level `type` / `as` overrides that agree with what serde writes for the payload
        for vlabel, vattr, payload in (("type-override", ['#[ts(type = "number")]'], "i32"), ("as", ['#[ts(as = "i32")]'], "i32"),
                                       ("type-override-object", ['#[ts(type = "{ a: number, b_c: string, }")]'], "St"), ("as-object", ['#[ts(as = "St")]'], "St")):
            if rp == "internal" and payload == "i32":
                continue
            tv = Variant("Target", "tuple", [Field(payload)], list(vattr))
            for vs in ([Variant("UnitV", "unit"), shapes["struct2"]("TwoFields"), tv], [tv, Variant("UnitV", "unit")], [shapes["newtype"]("NewV"), tv]):
                out.append(one({"family": "enum-variant-attr", "repr": rp, "shape": "newtype", "variant_attr": vlabel, "n": len(vs)},
                               TypeDef("E", "enum", variants=list(vs), attrs=list(rattr))))
            if rp != "untagged":
                tu = Variant("Target", "tuple", [Field(payload)], list(vattr) + ["#[serde(untagged)]"])
                out.append(one({"family": "enum-variant-attr", "repr": rp, "shape": "newtype", "variant_attr": vlabel + "+untagged"},
                               TypeDef("E", "enum", variants=[Variant("UnitV", "unit"), shapes["struct2"]("TwoFields"), tu], attrs=list(rattr))))
        # payload-field attributes
        for flabel, fattr, fty, skipped in (("skip", ["#[serde(skip)]"], "i32", True), ("inline", ["#[ts(inline)]"], "St", False),
                                            ("rename", ['#[serde(rename = "re-named")]'], "i32", False), ("flatten", ["#[serde(flatten)]"], "St", False),
                                            ("optional", ["#[ts(optional)]", '#[serde(skip_serializing_if = "Option::is_none", default)]'], "Option<i32>", False),
                                            ("type-same", ['#[ts(type = "bigint")]'], "u64", False), ("as-same", ['#[ts(as = "Vec<St>")]'], "Vec<St>", False)):
            # on a field of a struct variant
            v = Variant("StructV", "named", [Field("bool", "keep"), Field(fty, "target", list(fattr), skipped)])
            out.append(one({"family": "enum-field-attr", "repr": rp, "position": "struct-variant-field", "field_attr": flabel},
                           TypeDef("E", "enum", variants=[Variant("UnitV", "unit"), v], attrs=list(rattr))))
            v1 = Variant("StructV", "named", [Field(fty, "target", list(fattr), skipped)])
            out.append(one({"family": "enum-field-attr", "repr": rp, "position": "only-field-of-struct-variant", "field_attr": flabel},
                           TypeDef("E", "enum", variants=[v1, Variant("UnitV", "unit")], attrs=list(rattr))))
            if flabel in ("skip", "inline", "type-same", "as-same"):
                vn = Variant("NewV", "tuple", [Field(fty, None, list(fattr), skipped)])
                out.append(one({"family": "enum-field-attr", "repr": rp, "position": "newtype-payload", "field_attr": flabel},
                               TypeDef("E", "enum", variants=[Variant("UnitV", "unit"), vn], attrs=list(rattr))))
                if rp != "internal":
                    vt = Variant("TupV", "tuple", [Field("bool"), Field(fty, None, list(fattr), skipped)])
                    out.append(one({"family": "enum-field-attr", "repr": rp, "position": "tuple-payload", "field_attr": flabel},
                                   TypeDef("E", "enum", variants=[Variant("UnitV", "unit"), vt], attrs=list(rattr))))
        # rename_all / rename_all_fields
        for rule in (["camelCase", "SCREAMING-KEBAB-CASE", "snake_case"] if quick else RULES):
            vs = [Variant("UnitVar", "unit"), Variant("NewVar", "tuple", [Field("St")]),
                  Variant("StructVar", "named", [Field("i32", "field_one"), Field("St", "inner_st"), Field("u64", "type_over_ride", ['#[ts(type = "bigint")]']),
                                                 Field("Vec<St>", "as_it_is", ['#[ts(as = "Vec<St>")]']), Field("St", "inl_st", ["#[ts(inline)]"]),
                                                 Field("Option<i32>", "opt_val", ["#[ts(optional)]", '#[serde(skip_serializing_if = "Option::is_none", default)]'])]),
                  # serde wants untagged variants last
                  Variant("UntVar", "named", [Field("i32", "field_three"), Field("bool", "other_one")], (["#[serde(untagged)]"] if rp != "untagged" else []))]
            out.append(one({"family": "enum-rename-all", "repr": rp, "rule": rule},
                           TypeDef("E", "enum", variants=vs, attrs=list(rattr) + [f'#[serde(rename_all = "{rule}")]'])))
            out.append(one({"family": "enum-rename-all-fields", "repr": rp, "rule": rule},
                           TypeDef("E", "enum", variants=vs, attrs=list(rattr) + [f'#[serde(rename_all_fields = "{rule}")]'])))
            # tag / content keys that every rule would change if it were (wrongly) applied to them
            if rp in ("internal", "adjacent"):
                rattr2 = ['#[serde(tag = "tag_Key")]'] if rp == "internal" else ['#[serde(tag = "tag_Key", content = "content_Key")]']
                out.append(one({"family": "enum-rename-all", "repr": rp, "rule": rule, "keys": "multi-word"},
                               TypeDef("E", "enum", variants=vs, attrs=list(rattr2) + [f'#[serde(rename_all = "{rule}")]'])))
                out.append(one({"family": "enum-rename-all-fields", "repr": rp, "rule": rule, "keys": "multi-word"},
                               TypeDef("E", "enum", variants=vs, attrs=list(rattr2) + [f'#[serde(rename_all_fields = "{rule}")]'])))
        both = [Variant("UnitVar", "unit"), Variant("StructVar", "named", [Field("i32", "field_one"), Field("u64", "type_over_ride", ['#[ts(type = "bigint")]'])]),
                Variant("OwnRule", "named", [Field("i32", "field_two"), Field("u64", "type_over_ride", ['#[ts(type = "bigint")]'])], ['#[serde(rename_all = "SCREAMING_SNAKE_CASE")]'])]
        out.append(one({"family": "enum-rename-all-both", "repr": rp},
                       TypeDef("E", "enum", variants=both, attrs=list(rattr) + ['#[serde(rename_all = "snake_case", rename_all_fields = "camelCase")]'])))
    return out


def fam_serde_inert(quick):
    """Supported serde entries next to entries ts-rs does not implement, in the nested `key(..)` form that sends
    its attribute parser down the entry-by-entry path: first / last / between, no trailing comma."""
    out = []
    B1, B2 = 'bound(deserialize = "")', 'bound(serialize = "", deserialize = "")'
    lists = {
        "inert-first": lambda sup: f"#[serde({B1}, {sup})]",
        "inert-last": lambda sup: f"#[serde({sup}, {B1})]",
        "inert-around": lambda sup, plain="deny_unknown_fields": f"#[serde({B2}, {sup}, {plain})]",
    }
    ALIAS = 'alias = "zz"'   # a plain unsupported entry for fields and variants
    for pos, mk in lists.items():
        # container: struct
        td = TypeDef("X", "struct", "named", [Field("i32", "foo_bar"), Field("String", "baz_qux")], attrs=[mk('rename_all = "camelCase"')])
        out.append(one({"family": "serde-inert-neighbour", "where": "struct", "position": pos, "supported": "rename_all"}, td))
        td = TypeDef("X", "struct", "named", [Field("i32", "foo_bar")], attrs=[mk('tag = "kind", rename_all = "SCREAMING_SNAKE_CASE"')])
        out.append(one({"family": "serde-inert-neighbour", "where": "struct", "position": pos, "supported": "tag+rename_all"}, td))
        # container: enum, every representation
        for rp, sup in (("external", 'rename_all = "snake_case"'), ("internal", 'tag = "t", rename_all = "snake_case"'),
                        ("adjacent", 'tag = "t", content = "c", rename_all_fields = "camelCase"'), ("untagged", "untagged")):
            vs = [Variant("UnitVar", "unit"), Variant("StructVar", "named", [Field("i32", "field_one")])]
            out.append(one({"family": "serde-inert-neighbour", "where": "enum", "repr": rp, "position": pos},
                           TypeDef("E", "enum", variants=vs, attrs=[mk(sup)])))
        # field and variant
        mkc = mk
        if pos == "inert-around":
            mk = lambda sup, _m=mkc: _m(sup, ALIAS)
        td = TypeDef("X", "struct", "named", [Field("i32", "keep"), Field("i32", "target", [mk('rename = "re-named"')]),
                                              Field("i32", "gone", [mk("skip")], True)])
        out.append(one({"family": "serde-inert-neighbour", "where": "field", "position": pos}, td))
        vs = [Variant("Target", "named", [Field("i32", "field_one", [mk('rename = "f-1"')])], [mk('rename = "re-named", rename_all = "UPPERCASE"')]),
              Variant("Other", "unit", attrs=[mk('rename = "o"')])]
        out.append(one({"family": "serde-inert-neighbour", "where": "variant", "position": pos}, TypeDef("E", "enum", variants=vs)))
    return out


def fam_generics(quick):
    out = []
    args = ["i32", "St", "En", "Option<St>", "Gp<i32>"]
    g1 = TypeDef("G", "struct", "named", [Field("T", "v"), Field("Option<T>", "o"), Field("Vec<T>", "l"), Field("(T, i32)", "t")], generics=["T"])
    g2 = TypeDef("G", "struct", "named", [Field("T", "first"), Field("BTreeMap<String, U>", "m"), Field("Gp<U>", "g")], generics=["T", "U"])
    gf = TypeDef("G", "struct", "named", [Field("i32", "own"), Field("Gp<T>", "g", ["#[serde(flatten)]"])], generics=["T"])
    gi = TypeDef("G", "struct", "named", [Field("i32", "own"), Field("Gp<T>", "g", ["#[ts(inline)]"])], generics=["T"])
    gn = TypeDef("G", "struct", "tuple", [Field("T")], generics=["T"])
    gt = TypeDef("G", "struct", "tuple", [Field("T"), Field("Vec<T>")], generics=["T"])
    for lbl, g in (("fields", g1), ("flatten-generic", gf), ("inline-generic", gi), ("newtype", gn), ("tuple", gt)):
        body = []
        for a in args:
            body += [f'ctx.check_type::<G<{a}>>("G<{a}>");']
        out.append(Case({"family": "generic-struct", "use": lbl}, [g], body))
    body = []
    for a in args[:3]:
        for b in args[:3]:
            body += [f'ctx.check_type::<G<{a}, {b}>>("G<{a}, {b}>");']
    out.append(Case({"family": "generic-struct", "use": "two-params"}, [g2], body))
    for rp, rattr in REPRS.items():
        vs = [Variant("A", "tuple", [Field("T")]), Variant("B", "named", [Field("T", "x"), Field("Vec<T>", "l")]), Variant("C", "unit")]
        ge = TypeDef("GE", "enum", variants=vs, attrs=list(rattr), generics=["T"])
        # internally tagged newtype payloads must be objects (serde's TaggedSerializer); the
        # non-object payloads are the business of the enum-payload family
        obj_args = ["St", "Gp<i32>"] if rp == "internal" else args
        body = [f'ctx.check_type::<GE<{a}>>("GE<{a}>");' for a in obj_args]
        out.append(Case({"family": "generic-enum", "repr": rp}, [ge], body))
    return out


def fam_nesting(base_cases, quick):
    """Re-use generated types as field types of wrappers, to depth 3."""
    out = []
    step = 9 if quick else 3
    picked = [c for i, c in enumerate(base_cases) if i % step == 0 and len(c.types) == 1 and not c.types[0].generics]
    for c in picked:
        inner = c.types[0]
        n = inner.name
        w1 = TypeDef("W1", "struct", "named", [Field(n, "inner"), Field(f"Option<{n}>", "o"), Field(f"Vec<{n}>", "v")])
        w2 = TypeDef("W2", "enum", variants=[Variant("A", "tuple", [Field(n)]), Variant("B", "named", [Field("W1", "w")]), Variant("C", "unit")])
        w3 = TypeDef("W3", "struct", "named", [Field("W2", "deep"), Field(f"Gp<{n}>", "g"), Field(f"BTreeMap<String, {n}>", "m")])
        k = dict(c.klass)
        k["family"] = "nested:" + str(k.get("family"))
        out.append(Case(k, [inner, w1, w2, w3], check("W1") + check("W2") + check("W3"), strings=c.strings))
    return out


IDENTS = ["foo_bar", "fooBar", "FooBar", "Foo_Bar", "_x", "x_", "a__b", "a1", "r#type", "r#match", "é_x", "HTTPServer", "IOError", "BadID", "_leading_under", "Upper_first"]


def serde_undefined(rule, ident, position):
    name = ident.replace("r#", "")
    if rule == "camelCase":
        if position == "variant":
            return not name[0].isascii()
        pascal = "".join(p[:1].upper() + p[1:] for p in name.split("_"))
        return pascal == "" or not pascal[0].isascii()
    return False


def fam_identifiers(quick):
    out = []
    for rule in RULES:
        for ident in IDENTS:
            if not serde_undefined(rule, ident, "field"):
                td = TypeDef("X", "struct", "named", [Field("i32", ident), Field("bool", "plain_one")], attrs=[f'#[serde(rename_all = "{rule}")]'])
                out.append(one({"family": "identifier", "position": "field", "rule": rule, "ident": ident}, td))
                e = TypeDef("E", "enum", variants=[Variant("VarOne", "named", [Field("i32", ident)]), Variant("U", "unit")],
                            attrs=[f'#[serde(rename_all_fields = "{rule}")]'])
                out.append(one({"family": "identifier", "position": "variant-field", "rule": rule, "ident": ident}, e))
            if not serde_undefined(rule, ident, "variant"):
                for rp in (["external", "adjacent"] if quick else ["external", "internal", "adjacent"]):
                    e = TypeDef("E", "enum", variants=[Variant(ident, "unit"), Variant("Other", "tuple", [Field("i32")]) if rp != "internal" else Variant("Other", "named", [Field("i32", "x")])],
                                attrs=list(REPRS[rp]) + [f'#[serde(rename_all = "{rule}")]'])
                    out.append(one({"family": "identifier", "position": "variant", "rule": rule, "ident": ident, "repr": rp}, e))
    # without rename_all: raw identifiers and non-ASCII names as they are
    for ident in IDENTS + ["r#struct", "r#async", "Ünï"]:
        td = TypeDef("X", "struct", "named", [Field("i32", ident)])
        out.append(one({"family": "identifier", "position": "field", "rule": "none", "ident": ident}, td))
        e = TypeDef("E", "enum", variants=[Variant(ident, "unit"), Variant("Other", "named", [Field("i32", ident)])])
        out.append(one({"family": "identifier", "position": "variant", "rule": "none", "ident": ident}, e))
    for tname in ("r#enum", "r#type", "Ünï", "é"):
        td = TypeDef(tname, "struct", "named", [Field("i32", "a")])
        out.append(Case({"family": "identifier", "position": "type-name", "ident": tname}, [td], check(tname)))
    return out


def build(tier):
    quick = tier == "quick"
    base = fam_struct_shapes(quick) + fam_named_fields(quick) + fam_enums(quick) + fam_multi_flatten(quick) + fam_field_combos(quick) + fam_serde_inert(quick)
    cases = base + fam_generics(quick) + fam_identifiers(quick) + fam_nesting(base, quick)
    return cases
